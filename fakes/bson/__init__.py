"""Importable stand-in for pymongo's ``bson`` (only what synced_collections touches)."""
from . import errors  # noqa: F401
