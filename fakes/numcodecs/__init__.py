"""Importable stand-in for ``numcodecs`` (only the JSON object codec).

Mirrors numcodecs.JSON defaults: utf-8, skipkeys=False, ensure_ascii=True,
allow_nan=True, sort_keys=True.
"""
import json as _json


class JSON:
    codec_id = "json2"

    def __init__(self):
        self._enc = _json.JSONEncoder(
            skipkeys=False, ensure_ascii=True, check_circular=True,
            allow_nan=True, sort_keys=True,
        )

    def encode(self, obj):
        return self._enc.encode(obj).encode("utf-8")

    def decode(self, blob):
        return _json.loads(bytes(blob).decode("utf-8"))
