#!/venv/bin/python
"""Regenerates MANIFEST.json from the table below (kept next to the checks so it stays valid)."""
import json

CHECKS = {
 "C01": ("exploration", "world", "model-based stateful PBT (Hypothesis): generated mutator programs vs a plain dict/list model, independent read of the resource after every call",
         "Generated operation programs over all 18 classes, nested handles of any depth, every public mutator; after each call the resource is read without the library and compared with a built-in model. Exploration: says nothing about programs not generated.",
         "Redis/MongoDB/Zarr via call-compatible fakes; == on plain data; key order ignored", "3 C01"),
}

def main():
    checks = []
    for pid, (level, engine, tech, text, note, ref) in sorted(CHECKS.items()):
        checks.append({
            "property_id": pid,
            "quick_cmd": f"./check {pid} --tier quick",
            "thorough_cmd": f"./check {pid} --tier thorough",
            "evidence_file": f"evidence/{pid}.json",
            "replay_cmd_template": f"./check {pid} --replay {{path}}",
            "engine": engine,
            "level_claimed": {"category": level, "text": text, "design_ref": "DESIGN.md section " + ref},
            "level_note": note,
            "technique": tech,
        })
    allp = [json.loads(l)["id"] for l in open("properties.jsonl")]
    na = [{"property_id": p, "reason": "check under construction in this session (not yet registered); see DESIGN.md section 3"}
          for p in allp if p not in CHECKS]
    m = {
        "version": 1,
        "setup_cmd": "./setup.sh",
        "hooks": {
            "guard": "SYNCED_COLLECTIONS_VERIF",
            "enable": "no source hooks exist: checks run /repo's working tree directly (editable install, PYTHONPATH=/repo first); locks/IO are intercepted from outside (threading.RLock replacement, sys.settrace, audit hooks)",
            "baseline_off_cmd": "cd /repo && /venv/bin/python -m pytest -ra -q -p no:cacheprovider --timeout=900 --continue-on-collection-errors",
            "source_commits": [],
            "add_only": True,
        },
        "engines": [
            {"name": "world", "path": "vf/world.py", "serves_properties": sorted(CHECKS), "kind_free_text": "interpreter of generated step lists against the library and a plain dict/list model (Hypothesis-driven), with replay and minimisation"},
        ],
        "checks": checks,
        "not_applicable": na,
        "notes": "All checks: ./check <id> [--tier quick|thorough] [--replay file]; exit 0 held / 1 VIOLATION / 2 harness error. VERIF_SEED selects the Hypothesis seeds.",
    }
    json.dump(m, open("MANIFEST.json", "w"), indent=1)

main()
