#!/venv/bin/python
"""Regenerates MANIFEST.json from the table below (kept next to the checks so it stays valid)."""
import json

CHECKS = {
 "C01": ("exploration", "world", "model-based stateful PBT (Hypothesis): generated mutator programs vs a plain dict/list model, independent read of the resource after every call",
         "Generated operation programs over all 18 classes, nested handles of any depth, every public mutator; after each call the resource is read without the library and compared with a built-in model; JSON classes under all four write configurations (write_concern x threading support), with rejected (forbidden-data) calls mixed in. Second part, complete product: every mutator with the k-th file-system call of its save failing (or the fake store failing): a call that returns must have written. Exploration: says nothing about programs not generated.",
         "Redis/MongoDB/Zarr via call-compatible fakes; == on plain data; key order ignored", "3 C01"),
 "C02": ("exploration", "world", "model-based stateful PBT (Hypothesis) with a generated outside writer steering (old kind -> new kind) rewrites; reads through roots and retained handles vs plain model",
         "Generated histories of reads/writes through 1-2 objects and retained child handles interleaved with out-of-band rewrites of any position to any JSON kind; every outcome is compared with the model of the resource at call time. Exploration over generated histories; the 4x4 kind-pair matrix of non-trivial reads is reported and must be full in the thorough tier.",
         "handles detached by the wording of C02 are not checked; root-kind changes not generated; fakes for Redis/MongoDB/Zarr", "3 C02"),
 "C03": ("exploration", "world", "differential PBT (Hypothesis): every call of the MutableMapping/MutableSequence surface on the synced object vs the same call on a built-in dict/list",
         "Differential testing against built-in dict/list over generated programs covering mutators, reads, mixins, slices, bad indices/keys and all six comparison operators with plain, near-miss, synced (same/other class) and non-sequence operands, at any depth, all 18 classes.",
         "documented deviations encoded once in the model; exception families compared; key order ignored", "3 C03"),
 "C04": ("exploration", "world", "model-based stateful PBT (Hypothesis): sequential histories over 2-3 objects on one resource and retained nested handles vs one shared plain model",
         "Generated sequential histories that alternate between several collection objects and stale nested handles on one resource; all must behave as one plain structure (outcomes, resource after every mutator, final reads).",
         "spec-detached handles unused; fakes for Redis/MongoDB/Zarr", "3 C04"),
 "C05": ("exploration", "bufworld", "model-based stateful PBT (Hypothesis): generated programs with well-nested obj.buffered / buffer_backend() contexts vs the unbuffered plain model, plus file stat/bytes invariants",
         "Generated programs for all 8 buffered classes with any nesting of the two context kinds; outcomes must equal the unbuffered model, the file must stay byte/inode/mtime-identical while buffered and equal the model right after the outermost exit; buffer size 0 at the end.",
         "default capacity (no forced flush); one object per file; tmpfs stat granularity", "3 C05"),
 "C06": ("exploration", "bufworld", "model-based PBT (Hypothesis) of scripted multi-object histories: k objects on one file in a common buffered state, generated roles, touch order and exit permutations, vs one plain model",
         "Generated histories over 2-3 objects bound to one file in one common buffered state (class-wide, per-object with permuted exits, or both), generator steered so that ~30% of cases have a pure reader flushed before a later writer; reads inside the context, the file after the common exit and every object afterwards must equal the model.",
         "only identical buffered states (mixed states are documented as unsupported); known findings K1/K2 excluded by construction while they reproduce", "3 C06"),
 "C07": ("exploration", "c07-scenarios", "scenario PBT (Hypothesis; exhaustive product for n<=2 files in thorough): role x outside-change x context-kind vectors with an outside writer, oracle = exact conflict set, file contents, buffer state, second session",
         "Generated (and for n<=2 exhaustively enumerated) assignments of roles and outside changes to 1-4 buffered files under five context kinds including two ways of forcing a flush; also files that do not exist when they enter the buffer (the outside change creates them), a second read-only object per file, and a small class-wide capacity around buffer_backend(cap); checks the exact exception type and conflict set, that outside content survives, clean files are written, read-only files are never written, and that the buffer/capacity/state afterwards allow a clean second session.",
         "outside writer always changes (size, mtime_ns); whether a forcing operation that raises applied its own change is left open (the statement does not say)", "3 C07"),
 "C15": ("exploration", "acctworld", "model-based stateful PBT (Hypothesis): generated context/capacity/operation programs vs a documented-semantics model of buffer size and capacity, checked after every step",
         "Generated programs over 2-4 files with nested contexts, capacity arguments and set_buffer_capacity incl. capacities below one document; some exits hit an injected I/O error (then only the bookkeeping is still judged); after every step size == model, size <= capacity, size == 0 outside contexts, capacity == model stack, and every file without pending buffered modifications is current on disk.",
         "type-stable value alphabet; under an overflow the model admits 'all flushed' or 'only the accessed file re-entered' (operations load a varying number of times) and adopts the observed one", "3 C15"),
 "C11": ("exploration", "c11-product", "exhaustive enumeration of the finite (entry point x target x invalid item x embedding x class) product plus Hypothesis random embeddings; oracle = exception family + forbidden-item walk of memory and backend",
         "The whole finite product (about 50k cases) is enumerated in both tiers ('exhaustive': true for that product) and extended by random deeper embeddings; incl. entry points that merge the argument into an existing nested container and live synced collections as values; a third part offers forbidden data from a second thread while another is mid-operation (deterministic scheduler); each case checks the exception family, walks the in-memory node tree and the independently read resource for any forbidden item, and for single-element entry points demands byte-identical backend and unchanged memory.",
         "forbidden set per family as listed in the evidence assumptions; public API cross-checked by introspection (unknown public attribute = harness error)", "3 C11"),
 "C12": ("exploration", "c12-roundtrip", "round-trip PBT: exhaustive small value domain + Hypothesis JSON values + boundary list through every entry point, read back through a fresh object with a leaf-type-exact comparison",
         "Every value is stored through every entry point at four target depths over an empty or an existing (==-colliding) prior value, then read through a fresh collection object and from the raw resource; equality and JSON leaf types must match exactly.",
         "NaN/inf/lone surrogates excluded; MongoDB ints <= 64 bit; fakes for Redis/MongoDB/Zarr", "3 C12"),
 "C16": ("exploration", "c16-aliasing", "metamorphic PBT (Hypothesis): mutate-the-argument/result-afterwards must change nothing; cross-assignment must copy",
         "Generated inbound (all entry points, also inside buffered contexts), outbound (every container-returning API) and cross-assignment cases for all 18 classes; every container reachable from the user-held value is mutated afterwards and the object, a fresh object and the raw resource must be unchanged; (), values(), items() must be built-in data at every depth.",
         "pop/popitem/del: only 'mutating the removed value changes nothing' is required; fakes for Redis/MongoDB/Zarr", "3 C16"),
 "C17": ("exploration", "roworld", "stateful PBT (Hypothesis) of read-only programs with an audit-hook recorder and stat/bytes/listing invariants after every step",
         "Generated read-only programs (every read API, comparisons, repr/str, nested reads, context enter/exit, overlapping per-object contexts of two objects) on existing and missing resources for all 18 classes, optionally next to a bystander object on another file that is written and capacity changes that force flushes, and an outside writer that re-stores the same data in another textual form; after every step no write event was audited, the file's bytes/inode/mtime and the directory listing are unchanged and the fakes counted no mutating call.",
         "audit hooks see Python-level file operations; fakes count set/replace_one/require_dataset/__setitem__", "3 C17"),
 "C18": ("exploration", "famworld+attr", "stateful PBT (Hypothesis): node-class/_root invariant after every step of mutator/rewrite/context programs; differential attribute-vs-item programs on attr dicts against a plain dict",
         "Part (a): after every step of generated programs (mutators, kind-changing outside rewrites, buffered contexts) every reachable node has exactly the family's dict/list class and the right root, and the deepest node persists a write. Part (b): generated get/set/del programs in attribute and item syntax over key pools incl. every protected name, public method name and dunders, at depth 0-3, plus attribute SET of protected names and obj.filename retargeting. Part (c), enumerated: two objects of different classes of one data type on one file (unbuffered / buffered), each must stay inside its own family. Known finding K4 excluded while it reproduces.",
         "attribute set/del of live internals not generated (reconfigures the object by design)", "3 C18"),
 "C19": ("exploration", "zygote", "fresh-process differential PBT: fingerprint of a probe in a pristine forked child vs after a generated warm-up history; all ordered pairs enumerated, longer histories by Hypothesis",
         "For a pool of ~90 values of diverse/ambiguous/same-named types (incl. short-lived classes, NaN/inf, instances that sabotage their own first classification, deeply nested values), every resolver, validator and collection entry point is run on a probe value in a pristine fork and in a fork that first processed a warm-up history; fingerprints (category, accept/exception class, stored form, node classes) must be identical. All ordered pairs (warm-up length 1) are enumerated in both tiers, longer warm-ups are generated.",
         "types exist before anything is processed; fork() copy of a zygote that has processed nothing; private numpy under .deps", "3 C19"),
 "C09": ("exploration", "sched", "schedule-exploring PBT: Hypothesis-generated multi-threaded programs run under a harness-owned deterministic scheduler (all single-preemption schedules / all preemption sites, sampled 2-3 preemptions), linearizability oracle against all serial orders of a plain model",
         "Generated 2-3 thread programs over every mutator (shared object, second object on the file, pre-taken nested handles) are executed under a deterministic scheduler that owns every lock and every line-level preemption point; every executed schedule's outcomes and final file must be explained by some serial order of the operations on a plain model, and no schedule may deadlock.",
         "line-level preemption (not inside single C calls); only executed schedules are claimed; for programs above 1600 single-preemption schedules every distinct preemption site is covered by its first occurrences instead of every step", "2.6 / 3 C09"),
 "C10": ("fault_enumeration", "sched", "fault enumeration under the deterministic scheduler: every operation x every content/value/IO-call fault, followed by a second thread; plus generated lock-mixing programs and retarget programs under all single-preemption schedules; oracle = exact lock ownership and deadlock detection",
         "Part A enumerates, per JSON class, every operation with every injected fault (content, rejected value, OSError at each file-system call of the load and save) unbuffered and buffered, then lets a second thread use the same object, a sibling object and another file: no lock may stay owned, nothing may deadlock ('exhaustive': true for that product). Parts B/C explore generated lock-mixing programs (incl. object construction and buffered clear/reset) and filename retargeting under all single-preemption schedules.",
         "only named faults injected; deadlock exact inside the cooperative scheduler; locks not created through threading.RLock/Lock would be a harness error", "2.6-2.8 / 3 C10"),
 "C13": ("exploration", "sched", "schedule-exploring PBT: Hypothesis-generated programs of buffered mutators inside buffer_backend(capacity) with flush-forcing capacities, deterministic scheduler, linearizability per file + exit/size/lock oracles",
         "Generated 2-3 thread programs of buffered mutators over 1-3 files (shared or distinct objects, optional thread-private reader objects, optional main-thread modifications before the threads start) inside a backend-wide context with capacities that force flushes mid-operation; all single-preemption schedules / all preemption sites plus sampled deeper ones; outcomes and each file's final content must match a serial order, the exit must not raise, size 0, no deadlock or leaked lock.",
         "as C09; reads not issued (C14)", "3 C13"),
 "C14": ("exploration", "sched", "schedule-exploring PBT with a real-time linearizability oracle over complete histories (reads included), unbuffered and buffered",
         "Generated reader/writer programs executed under the deterministic scheduler; the full history including reads must be linearizable w.r.t. real-time order against the plain model. Known finding K3 (unsynchronised reads on a shared object tree) is excluded by construction while it reproduces: each reading thread then gets its own object, and shared-memory-buffered programs run unbuffered.",
         "as C09; K3 exclusion narrows the explored domain as stated", "3 C14"),
 "C08": ("fault_enumeration", "crash", "crash-point enumeration: Hypothesis-generated save/flush scenarios, every executed line, file-system call and write prefix crashed in a forked child (os._exit), oracle = each file byte-identical to its old or its new content and openable",
         "For each generated scenario (class, write configuration, content, single operation or multi-file buffer flush) the un-crashed run is measured and then every crash point is executed in its own forked child that dies without cleanup; every target file must be byte-for-byte its previous or its complete new content and open normally. 'exhaustive': true per scenario for lines and file-system calls; write prefixes exhaustive up to 64 bytes, 24 spread prefixes beyond. Second part: unserializable-but-validated content in all four write configurations (complete product).",
         "process death (not power loss); kernel rename atomicity and tmpfs trusted; os._exit stands for SIGKILL", "2.7 / 3 C08"),
}

def main():
    checks = []
    for pid, (level, engine, tech, text, note, ref) in sorted(CHECKS.items()):
        checks.append({
            "property_id": pid,
            "quick_cmd": f"./check {pid} --tier quick",
            "thorough_cmd": f"./check {pid} --tier thorough",
            "evidence_file": f"evidence/{pid}.json",
            "replay_cmd_template": f"./check {pid} --replay {{path}}",
            "engine": engine,
            "level_claimed": {"category": level, "text": text, "design_ref": "DESIGN.md section " + ref},
            "level_note": note,
            "technique": tech,
        })
    allp = [json.loads(l)["id"] for l in open("properties.jsonl")]
    na = [{"property_id": p, "reason": "check under construction in this session (not yet registered); see DESIGN.md section 3"}
          for p in allp if p not in CHECKS]
    m = {
        "version": 1,
        "setup_cmd": "./setup.sh",
        "hooks": {
            "guard": "SYNCED_COLLECTIONS_VERIF",
            "enable": "no source hooks exist: checks run /repo's working tree directly (editable install, PYTHONPATH=/repo first); locks/IO are intercepted from outside (threading.RLock replacement, sys.settrace, audit hooks)",
            "baseline_off_cmd": "cd /repo && /venv/bin/python -m pytest -ra -q -p no:cacheprovider --timeout=900 --continue-on-collection-errors",
            "source_commits": [],
            "add_only": True,
        },
        "engines": [
            {"name": "bufworld", "path": "vf/bufworld.py", "serves_properties": ["C05", "C06"], "kind_free_text": "world + buffered-context steps and file-frozen invariants"},
            {"name": "acctworld", "path": "vf/acctworld.py", "serves_properties": ["C15"], "kind_free_text": "bufworld + buffer size/capacity model"},
            {"name": "c07-scenarios", "path": "vf/props/c07.py", "serves_properties": ["C07"], "kind_free_text": "scenario generator/enumerator with an outside writer"},
            {"name": "c11-product", "path": "vf/props/c11.py", "serves_properties": ["C11"], "kind_free_text": "finite product enumerator"},
            {"name": "c12-roundtrip", "path": "vf/props/c12.py", "serves_properties": ["C12"], "kind_free_text": "value round-trip through a fresh object"},
            {"name": "c16-aliasing", "path": "vf/props/c16.py", "serves_properties": ["C16"], "kind_free_text": "aliasing metamorphic cases"},
            {"name": "roworld", "path": "vf/props/c17.py", "serves_properties": ["C17"], "kind_free_text": "read-only bufworld + audit hooks (vf/audit.py)"},
            {"name": "famworld+attr", "path": "vf/props/c18.py", "serves_properties": ["C18"], "kind_free_text": "family-closure world and attribute/item differential programs"},
            {"name": "zygote", "path": "vf/props/c19.py", "serves_properties": ["C19"], "kind_free_text": "fork-per-case fresh-process oracle"},
            {"name": "sched", "path": "vf/sched.py", "serves_properties": ["C09", "C10", "C13", "C14"], "kind_free_text": "deterministic cooperative scheduler (locks replaced, sys.settrace yield points), fork isolation, fault injection; oracle helpers in vf/conc.py"},
            {"name": "crash", "path": "vf/crash.py", "serves_properties": ["C08"], "kind_free_text": "fork + os._exit crash injector (settrace lines, audit events, write proxy)"},
            {"name": "world", "path": "vf/world.py", "serves_properties": ["C01", "C02", "C03", "C04"], "kind_free_text": "interpreter of generated step lists against the library and a plain dict/list model (Hypothesis-driven), with replay and minimisation"},
        ],
        "checks": checks,
        "not_applicable": na,
        "notes": "All checks: ./check <id> [--tier quick|thorough] [--replay file]; exit 0 held / 1 VIOLATION / 2 harness error. VERIF_SEED selects the Hypothesis seeds.",
    }
    json.dump(m, open("MANIFEST.json", "w"), indent=1)

main()
