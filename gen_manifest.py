#!/venv/bin/python
"""Regenerates MANIFEST.json from the table below (kept next to the checks so it stays valid)."""
import json

CHECKS = {
 "C01": ("exploration", "world", "model-based stateful PBT (Hypothesis): generated mutator programs vs a plain dict/list model, independent read of the resource after every call",
         "Generated operation programs over all 18 classes, nested handles of any depth, every public mutator; after each call the resource is read without the library and compared with a built-in model. Exploration: says nothing about programs not generated.",
         "Redis/MongoDB/Zarr via call-compatible fakes; == on plain data; key order ignored", "3 C01"),
 "C02": ("exploration", "world", "model-based stateful PBT (Hypothesis) with a generated outside writer steering (old kind -> new kind) rewrites; reads through roots and retained handles vs plain model",
         "Generated histories of reads/writes through 1-2 objects and retained child handles interleaved with out-of-band rewrites of any position to any JSON kind; every outcome is compared with the model of the resource at call time. Exploration over generated histories; the 4x4 kind-pair matrix of non-trivial reads is reported and must be full in the thorough tier.",
         "handles detached by the wording of C02 are not checked; root-kind changes not generated; fakes for Redis/MongoDB/Zarr", "3 C02"),
 "C03": ("exploration", "world", "differential PBT (Hypothesis): every call of the MutableMapping/MutableSequence surface on the synced object vs the same call on a built-in dict/list",
         "Differential testing against built-in dict/list over generated programs covering mutators, reads, mixins, slices, bad indices/keys and all six comparison operators with plain, near-miss, synced (same/other class) and non-sequence operands, at any depth, all 18 classes.",
         "documented deviations encoded once in the model; exception families compared; key order ignored", "3 C03"),
 "C04": ("exploration", "world", "model-based stateful PBT (Hypothesis): sequential histories over 2-3 objects on one resource and retained nested handles vs one shared plain model",
         "Generated sequential histories that alternate between several collection objects and stale nested handles on one resource; all must behave as one plain structure (outcomes, resource after every mutator, final reads).",
         "spec-detached handles unused; fakes for Redis/MongoDB/Zarr", "3 C04"),
}

def main():
    checks = []
    for pid, (level, engine, tech, text, note, ref) in sorted(CHECKS.items()):
        checks.append({
            "property_id": pid,
            "quick_cmd": f"./check {pid} --tier quick",
            "thorough_cmd": f"./check {pid} --tier thorough",
            "evidence_file": f"evidence/{pid}.json",
            "replay_cmd_template": f"./check {pid} --replay {{path}}",
            "engine": engine,
            "level_claimed": {"category": level, "text": text, "design_ref": "DESIGN.md section " + ref},
            "level_note": note,
            "technique": tech,
        })
    allp = [json.loads(l)["id"] for l in open("properties.jsonl")]
    na = [{"property_id": p, "reason": "check under construction in this session (not yet registered); see DESIGN.md section 3"}
          for p in allp if p not in CHECKS]
    m = {
        "version": 1,
        "setup_cmd": "./setup.sh",
        "hooks": {
            "guard": "SYNCED_COLLECTIONS_VERIF",
            "enable": "no source hooks exist: checks run /repo's working tree directly (editable install, PYTHONPATH=/repo first); locks/IO are intercepted from outside (threading.RLock replacement, sys.settrace, audit hooks)",
            "baseline_off_cmd": "cd /repo && /venv/bin/python -m pytest -ra -q -p no:cacheprovider --timeout=900 --continue-on-collection-errors",
            "source_commits": [],
            "add_only": True,
        },
        "engines": [
            {"name": "world", "path": "vf/world.py", "serves_properties": sorted(CHECKS), "kind_free_text": "interpreter of generated step lists against the library and a plain dict/list model (Hypothesis-driven), with replay and minimisation"},
        ],
        "checks": checks,
        "not_applicable": na,
        "notes": "All checks: ./check <id> [--tier quick|thorough] [--replay file]; exit 0 held / 1 VIOLATION / 2 harness error. VERIF_SEED selects the Hypothesis seeds.",
    }
    json.dump(m, open("MANIFEST.json", "w"), indent=1)

main()
