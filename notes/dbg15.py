import sys, faulthandler
sys.path[:0]=['/repo','/verif','/verif/fakes','/verif/.deps']
faulthandler.dump_traceback_later(90, exit=True)
from vf.props import c15
for i,spec in enumerate(c15.shards('quick')):
    print(spec, flush=True)
    r=c15.run_shard(spec, 1000+i, 'quick', [])
    print(r['evaluations'], len(r['failures']), flush=True)
    faulthandler.cancel_dump_traceback_later(); faulthandler.dump_traceback_later(90, exit=True)
