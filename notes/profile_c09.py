import sys; sys.path[:0]=['/repo','/verif','/verif/fakes','/verif/.deps']
import time, json
from hypothesis import strategies as st, given, settings, seed, HealthCheck, Phase
from vf.props import c09
from vf.classes import CLASSES
from vf import conc, sched
progs=[]
@seed(12000)
@settings(max_examples=3, database=None, deadline=None, phases=[Phase.generate], suppress_health_check=list(HealthCheck))
@given(st.data())
def t(data):
    progs.append(c09.draw_program(data.draw, CLASSES[sys.argv[1] if len(sys.argv) > 1 else 'JSONDict']))
t()
for p in progs:
    print(json.dumps(p['threads']), p['handles'], flush=True)
    t0=time.time()
    base,bres,ones,ex=conc.one_preemption_schedules(p, len(p['threads']))
    print('baseline steps', [r['steps'] for r in bres], 'schedules', len(ones), time.time()-t0, flush=True)
    t0=time.time()
    rs=sched.explore(p, ones)
    t1=time.time()
    print('explore', t1-t0, 'poisoned', sum(1 for r in rs if r['poisoned']), flush=True)
    bad=0
    for sc,r in zip(ones,rs):
        d=c09.judge(p,sc,r)
        if d: bad+=1
    print('judge', time.time()-t1, 'bad', bad, flush=True)
