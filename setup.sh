#!/bin/bash
# Offline, idempotent: private numpy (and hypothesis if /venv lacks it) under /verif/.deps
set -e
cd "$(dirname "$0")"
export PIP_NO_INDEX=1 PIP_DISABLE_PIP_VERSION_CHECK=1
WH=/opt/veriftools/wheels
mkdir -p .deps
if [ ! -d .deps/numpy ]; then
  /venv/bin/pip install -q --no-index --find-links "$WH" --target .deps numpy >/dev/null 2>&1 || {
    echo "setup: numpy install failed" >&2; exit 2; }
fi
if ! /venv/bin/python -c "import hypothesis" 2>/dev/null; then
  if [ ! -d .deps/hypothesis ]; then
    /venv/bin/pip install -q --no-index --find-links "$WH" --target .deps hypothesis >/dev/null 2>&1 || {
      echo "setup: hypothesis install failed" >&2; exit 2; }
  fi
fi
# optional engine: atheris (coverage-guided campaigns in the thorough tier); its absence is tolerated
if [ ! -d .deps/atheris ]; then
  /venv/bin/pip install -q --no-index --find-links "$WH" --target .deps atheris >/dev/null 2>&1 || true
fi
exit 0
