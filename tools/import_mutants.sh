#!/bin/bash
# tools/import_mutants.sh C01 [C02 ...]: copy agent output into seeded/<P>-mN and evaluate (4 at a time)
cd "$(dirname "$0")/.."
ids=()
for P in "$@"; do
  for m in /tmp/wt/$P/mutants/m*; do
    [ -f "$m/patch.diff" ] || continue
    id="$P-$(basename $m)"
    mkdir -p seeded/$id
    [ -f seeded/$id/meta.json ] || cp $m/patch.diff $m/demo.py $m/meta.json seeded/$id/ 2>/dev/null
    ids+=("$id")
  done
done
printf '%s\n' "${ids[@]}" | xargs -P 4 -I{} sh -c 'tools/seedcheck.py seeded/{} > /tmp/seed-{}.log 2>&1; echo "=== {}"; tail -3 /tmp/seed-{}.log | cut -c1-400'
