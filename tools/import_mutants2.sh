#!/bin/bash
# tools/import_mutants2.sh C01 ...: second-round agent output (/tmp/wt2) -> seeded/<P>-m3, m4
cd "$(dirname "$0")/.."
ids=()
for P in "$@"; do
  n=${NSTART:-3}
  for m in ${WTROOT:-/tmp/wt2}/$P/mutants/m*; do
    [ -f "$m/patch.diff" ] || continue
    id="$P-m$n"; n=$((n+1))
    mkdir -p seeded/$id
    [ -f seeded/$id/meta.json ] || cp $m/patch.diff $m/demo.py $m/meta.json seeded/$id/ 2>/dev/null
    ids+=("$id")
  done
done
printf '%s\n' "${ids[@]}" | xargs -P 3 -I{} sh -c 'tools/seedcheck.py seeded/{} > /tmp/seed5-{}.log 2>&1; echo "=== {}"; grep -E "^confirm|^C[0-9]+:" /tmp/seed5-{}.log | cut -c1-300'
