#!/venv/bin/python
"""Sensitivity experiment: undo each repo fix in turn and see whether the *generated search*
(regression replays switched off) of the check that originally found it still reports a violation.

usage: tools/revert_sensitivity.py [ids...]   -> prints a table, writes notes/revert_sensitivity.json
"""
import json
import os
import subprocess
import sys

VERIF = os.path.dirname(os.path.dirname(os.path.abspath(__file__)))


def sh(cmd, cwd=None, env=None):
    p = subprocess.run(cmd, shell=True, cwd=cwd, env=env, stdout=subprocess.PIPE, stderr=subprocess.STDOUT, text=True)
    return p.returncode, p.stdout


def main():
    kf = json.load(open(os.path.join(VERIF, "known_findings.json")))["findings"]
    want = set(sys.argv[1:])
    out = {}
    assert not sh("git status --short", cwd="/repo")[1].strip(), "/repo not clean"
    for e in kf:
        if e["status"] != "fixed" or (want and e["id"] not in want):
            continue
        prop = e["properties"][0]
        rc, o = sh(f"git show {e['commit']} -- synced_collections | git apply -R --whitespace=nowarn", cwd="/repo")
        if rc != 0:
            sh("git checkout -- .", cwd="/repo")
            out[e["id"]] = {"property": prop, "result": "revert does not apply cleanly (later fix touches the same lines)"}
            print(e["id"], prop, "SKIP (revert conflicts)")
            continue
        env = dict(os.environ, VF_NO_REGRESS="1", VERIF_SEED="1")
        ep = os.path.join(VERIF, "evidence", f"{prop}.json")
        saved = open(ep).read() if os.path.exists(ep) else None
        try:
            rc, o = sh(f"./check {prop} --tier quick", cwd=VERIF, env=env)
        finally:
            sh("git checkout -- .", cwd="/repo")
            if saved is not None:
                open(ep, "w").write(saved)
        viol = [l for l in o.splitlines() if l.startswith("VIOLATION")]
        for l in viol:
            fp = os.path.join(VERIF, l.split("replay=")[-1].strip())
            if os.path.exists(fp) and "/regress/" not in fp and "/known/" not in fp:
                os.remove(fp)
        out[e["id"]] = {"property": prop, "commit": e["commit"], "exit": rc, "violations": len(viol)}
        print(e["id"], prop, "exit", rc, "violations", len(viol))
    json.dump(out, open(os.path.join(VERIF, "notes", "revert_sensitivity.json"), "w"), indent=1)


main()
