#!/venv/bin/python
"""Confirm a seeded change and run checks against it.

usage: tools/seedcheck.py seeded/<id> [--props C01,C03] [--no-confirm] [--tier quick] [--inplace]

Default mode works in a scratch worktree of /repo under /tmp (removed afterwards): the patch is
applied there, the repository's suite and the demonstration are run (with and without the patch),
and the checks are run against that tree (VF_REPO) with their evidence/replay output redirected to
a scratch directory (VF_OUT), so several seeded changes can be evaluated in parallel and nothing
about a mutant ever lands in /verif/evidence. --inplace follows the plain protocol instead:
`git -C /repo apply`, run the checks, `git -C /repo checkout -- .`.
Results are recorded in seeded/<id>/meta.json under "ran".
"""
import argparse
import json
import os
import shutil
import subprocess
import sys
import time

VERIF = os.path.dirname(os.path.dirname(os.path.abspath(__file__)))


def sh(cmd, cwd=None, env=None, timeout=7200):
    p = subprocess.run(cmd, shell=True, cwd=cwd, env=env, stdout=subprocess.PIPE, stderr=subprocess.STDOUT,
                       text=True, timeout=timeout)
    return p.returncode, p.stdout


def run_checks(props, tier, seed, extra_env, ran):
    for p in props:
        t0 = time.time()
        # regression replays off: what is measured is the generated search, not the memory of old bugs
        env = dict(os.environ, VERIF_SEED=str(seed), VF_NO_REGRESS="1", **extra_env)
        rc, out = sh(f"./check {p} --tier {tier}", cwd=VERIF, env=env)
        lines = out.splitlines()
        viol = [l for l in lines if l.startswith("VIOLATION")]
        detail = ""
        for i, l in enumerate(lines):
            if l.startswith("VIOLATION") and i + 1 < len(lines):
                detail = lines[i + 1].strip()[:300]
                break
        herr = [l for l in lines if "HARNESS-ERROR" in l][:1]
        ran.setdefault("checks", {})[p] = {"tier": tier, "seed": int(seed), "exit": rc,
                                           "violations": len(viol), "first": detail or (herr[0][:300] if herr else ""),
                                           "wall_s": round(time.time() - t0, 1)}
        print(f"{p}: exit={rc} violations={len(viol)} {(detail or (herr[0] if herr else ''))[:220]}")
    return ran


def main():
    ap = argparse.ArgumentParser()
    ap.add_argument("dir")
    ap.add_argument("--props", default=None)
    ap.add_argument("--no-confirm", action="store_true")
    ap.add_argument("--tier", default="quick")
    ap.add_argument("--seed", default="1")
    ap.add_argument("--inplace", action="store_true")
    a = ap.parse_args()
    d = os.path.abspath(a.dir)
    meta_p = os.path.join(d, "meta.json")
    meta = json.load(open(meta_p))
    patch = os.path.join(d, "patch.diff")
    demo = os.path.join(d, "demo.py")
    ran = meta.setdefault("ran", {})
    props = (a.props.split(",") if a.props else [meta["property"]])
    tag = f"{os.path.basename(d)}-{os.getpid()}"
    wt = f"/tmp/wt/run-{tag}"
    out = f"/tmp/vfout-{tag}"
    # a change whose lines a later fix commit rewrote names the commit it applies to
    sh(f"git -C /repo worktree add -q --detach {wt} {meta.get('applies_to', 'HEAD')}")
    try:
        env = dict(os.environ, PYTHONPATH=f"{wt}:{VERIF}/.deps")
        if not a.no_confirm:
            rc0, o0 = sh(f"/venv/bin/python {demo}", cwd=wt, env=env, timeout=900)
        rc, o = sh(f"git apply {patch}", cwd=wt)
        if rc != 0:
            print("patch does not apply:", o)
            ran["confirm"] = {"applies": False}
            json.dump(meta, open(meta_p, "w"), indent=1)
            return 2
        if not a.no_confirm:
            rct, ot = sh("/venv/bin/python -m pytest -q -p no:cacheprovider --timeout=900 -n 4 2>&1 | tail -3",
                         cwd=wt, env=env)
            rc1, o1 = sh(f"/venv/bin/python {demo}", cwd=wt, env=env, timeout=900)
            ran["confirm"] = {
                "applies": True,
                "suite_with_patch": ot.strip().splitlines()[-1] if ot.strip() else "",
                "suite_note": "run with numpy importable, hence more tests than the 578 of the baseline environment",
                "demo_exit_without_patch": rc0,
                "demo_exit_with_patch": rc1,
                "demo_output_with_patch": o1.strip()[-300:],
            }
            print("confirm:", json.dumps({k: v for k, v in ran["confirm"].items() if k != "demo_output_with_patch"}))
        if a.inplace:
            st = sh("git status --short", cwd="/repo")[1].strip()
            if st:
                print("refusing --inplace: /repo not clean")
                return 2
            saved = {}
            for p in props:
                ep = os.path.join(VERIF, "evidence", f"{p}.json")
                if os.path.exists(ep):
                    saved[ep] = open(ep).read()
            sh(f"git -C /repo apply {patch}")
            try:
                run_checks(props, a.tier, a.seed, {"VF_OUT": out}, ran)
            finally:
                sh("git -C /repo checkout -- .")
            ran["how"] = "git -C /repo apply; ./check; git -C /repo checkout -- ."
        else:
            run_checks(props, a.tier, a.seed, {"VF_REPO": wt, "VF_OUT": out}, ran)
            ran["how"] = ("scratch worktree of /repo with the patch applied, VF_REPO=<worktree> VF_NO_REGRESS=1 "
                          "./check <id> (regression replays switched off: only the generated search is judged)")
    finally:
        sh(f"git -C /repo worktree remove --force {wt}")
        shutil.rmtree(out, ignore_errors=True)
    json.dump(meta, open(meta_p, "w"), indent=1)
    return 0


if __name__ == "__main__":
    sys.exit(main())
