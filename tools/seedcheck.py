#!/venv/bin/python
"""Confirm a seeded change and run the checks against it.

usage: tools/seedcheck.py seeded/<id> [--props C01,C03] [--no-confirm] [--tier quick]

1. confirm (scratch worktree under /tmp, removed afterwards): patch applies, the repository's
   test suite still passes with it, the demonstration fails with it and passes without it;
2. apply the patch to /repo, run the listed checks (default: meta.property), undo straight away;
3. record what was run in seeded/<id>/meta.json ("ran").
"""
import argparse
import json
import os
import subprocess
import sys
import time

VERIF = os.path.dirname(os.path.dirname(os.path.abspath(__file__)))


def sh(cmd, cwd=None, env=None, timeout=3600):
    p = subprocess.run(cmd, shell=True, cwd=cwd, env=env, stdout=subprocess.PIPE, stderr=subprocess.STDOUT,
                       text=True, timeout=timeout)
    return p.returncode, p.stdout


def main():
    ap = argparse.ArgumentParser()
    ap.add_argument("dir")
    ap.add_argument("--props", default=None)
    ap.add_argument("--no-confirm", action="store_true")
    ap.add_argument("--tier", default="quick")
    ap.add_argument("--seed", default="1")
    a = ap.parse_args()
    d = os.path.abspath(a.dir)
    meta_p = os.path.join(d, "meta.json")
    meta = json.load(open(meta_p))
    patch = os.path.join(d, "patch.diff")
    demo = os.path.join(d, "demo.py")
    ran = meta.setdefault("ran", {})
    rc, out = sh("git status --short", cwd="/repo")
    if out.strip():
        print("refusing: /repo has uncommitted changes:\n" + out)
        return 2
    if not a.no_confirm:
        wt = f"/tmp/wt/verify-{os.path.basename(d)}-{os.getpid()}"
        sh(f"git -C /repo worktree add -q {wt} HEAD")
        try:
            env = dict(os.environ, PYTHONPATH=f"{wt}:/tmp/mdeps")
            rc0, o0 = sh(f"/venv/bin/python {demo}", cwd=wt, env=env, timeout=600)
            rc, o = sh(f"git apply {patch}", cwd=wt)
            if rc != 0:
                print("patch does not apply:", o)
                ran["confirm"] = {"applies": False}
                json.dump(meta, open(meta_p, "w"), indent=1)
                return 2
            rct, ot = sh("/venv/bin/python -m pytest -q -p no:cacheprovider --timeout=900 -n 8 2>&1 | tail -3",
                         cwd=wt, env=env)
            rc1, o1 = sh(f"/venv/bin/python {demo}", cwd=wt, env=env, timeout=600)
            ran["confirm"] = {
                "applies": True,
                "suite_with_patch": ot.strip().splitlines()[-1] if ot.strip() else "",
                "demo_exit_without_patch": rc0,
                "demo_exit_with_patch": rc1,
                "demo_output_with_patch": o1.strip()[-400:],
            }
            print("confirm:", json.dumps(ran["confirm"])[:600])
        finally:
            sh(f"git -C /repo worktree remove --force {wt}")
    props = (a.props.split(",") if a.props else [meta["property"]])
    # evidence written while a mutant is applied says nothing about the real tree: keep the real one
    saved = {}
    for p in props:
        ep = os.path.join(VERIF, "evidence", f"{p}.json")
        if os.path.exists(ep):
            saved[ep] = open(ep).read()
    sh(f"git -C /repo apply {patch}")
    try:
        for p in props:
            t0 = time.time()
            env = dict(os.environ, VERIF_SEED=a.seed)
            rc, out = sh(f"./check {p} --tier {a.tier}", cwd=VERIF, env=env, timeout=7200)
            viol = [l for l in out.splitlines() if l.startswith("VIOLATION")]
            detail = ""
            for i, l in enumerate(out.splitlines()):
                if l.startswith("VIOLATION") and i + 1 < len(out.splitlines()):
                    detail = out.splitlines()[i + 1].strip()[:300]
                    break
            ran.setdefault("checks", {})[p] = {"tier": a.tier, "seed": int(a.seed), "exit": rc,
                                               "violations": len(viol), "first": detail,
                                               "wall_s": round(time.time() - t0, 1)}
            print(f"{p}: exit={rc} violations={len(viol)} {detail[:200]}")
            # replay files produced against a mutant are not evidence about the real tree
            for l in viol:
                rp = l.split("replay=")[-1].strip()
                fp = os.path.join(VERIF, rp)
                if os.path.exists(fp) and "/regress/" not in fp and "/known/" not in fp:
                    os.remove(fp)
    finally:
        sh("git -C /repo checkout -- .")
        for ep, body in saved.items():
            open(ep, "w").write(body)
    json.dump(meta, open(meta_p, "w"), indent=1)
    rc, out = sh("git status --short", cwd="/repo")
    if out.strip():
        print("WARNING: /repo not clean:", out)
    return 0


if __name__ == "__main__":
    sys.exit(main())
