#!/venv/bin/python
"""Print the markdown table of seeded changes and which checks caught them (from seeded/*/meta.json)."""
import glob
import json
import os

rows = []
for mp in sorted(glob.glob(os.path.join(os.path.dirname(os.path.dirname(os.path.abspath(__file__))), "seeded", "*", "meta.json"))):
    m = json.load(open(mp))
    sid = os.path.basename(os.path.dirname(mp))
    ran = m.get("ran", {})
    conf = ran.get("confirm", {})
    ok = conf.get("applies") and "passed" in conf.get("suite_with_patch", "") and "failed" not in conf.get("suite_with_patch", "") \
        and conf.get("demo_exit_with_patch") == 1 and conf.get("demo_exit_without_patch") == 0
    checks = ran.get("checks", {})
    caught = [f"{p}" for p, r in sorted(checks.items()) if r.get("exit") == 1]
    missed = [f"{p}" for p, r in sorted(checks.items()) if r.get("exit") == 0]
    err = [f"{p}" for p, r in sorted(checks.items()) if r.get("exit") not in (0, 1)]
    rows.append((sid, m.get("property"), m.get("summary", "")[:150].replace("|", "/"), m.get("needs", "")[:120].replace("|", "/"),
                 "yes" if ok else "NO", ", ".join(caught) or "-", ", ".join(missed) or "-", ", ".join(err) or ""))
print("| id | breaks | change | needs | confirmed | caught by | not caught by | harness err |")
print("|---|---|---|---|---|---|---|---|")
for r in rows:
    print("| " + " | ".join(str(x) for x in r) + " |")
