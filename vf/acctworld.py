"""BufWorld + a documented-semantics model of buffer size / capacity accounting (C15)."""
import json

from . import ops
from .bufworld import BufWorld
from .world import Mismatch

DEFAULT_CAP = {"serialized": 32 * 2**20, "memory": 1000}


class AcctWorld(BufWorld):
    def __init__(self, *a, **kw):
        kw.setdefault("check_frozen", False)
        super().__init__(*a, **kw)
        self.strategy = self.ci.buffered
        self.cap = DEFAULT_CAP[self.strategy]
        self.cap_stack = []
        self.inbuf = {}      # res index -> True while the file has a buffer entry
        self.modified = {}   # res index -> True while buffered data differs from disk (memory)
        self.forced = 0
        self.cls = None

    # ------------------------------------------------------------------ model
    def _bytes(self, r):
        return len(json.dumps(self.docs[r]).encode())

    def model_size(self):
        if self.strategy == "serialized":
            return sum(self._bytes(r) for r, v in self.inbuf.items() if v)
        return sum(1 for r, v in self.inbuf.items() if v and self.modified.get(r))

    def _overflow(self):
        if self.model_size() > self.cap:
            self._force()

    def _force(self):
        self.forced += 1
        self.events["forced_flush"] += 1
        if self.strategy == "serialized":
            self.inbuf = {}
        self.modified = {}

    def _set_cap(self, n):
        self.cap = n
        if n < self.model_size():
            self._force()

    # ------------------------------------------------------------------ checks
    def _check_acct0(self, step):
        cls = self.cls
        if cls is None:
            return
        got = cls.get_current_buffer_size()
        exp = self.model_size()
        if got != exp:
            raise Mismatch("buffer_size", step=step, got=got, expected=exp,
                           private_buffer_keys=sorted(str(k).rsplit("/", 1)[-1] for k in getattr(cls, "_buffer", ())))
        capg = cls.get_buffer_capacity()
        if capg != self.cap:
            raise Mismatch("buffer_capacity", step=step, got=capg, expected=self.cap)
        if got > capg:
            raise Mismatch("size_exceeds_capacity", step=step, size=got, capacity=capg)
        if not self.stack and got != 0:
            raise Mismatch("size_nonzero_outside_contexts", step=step, size=got)
        # nothing may be lost: a file without pending buffered modifications is up to date on disk
        for r in range(len(self.res)):
            pending = self.inbuf.get(r) and (self.strategy == "serialized" or self.modified.get(r))
            if not pending:
                self.check_res(r, step=step)

    def step(self, s):
        was_dead = getattr(self, "dead", False)
        done = super().step(s)
        if done is not False or (getattr(self, "dead", False) and not was_dead):
            self._check_acct(s)
        return done

    # ------------------------------------------------------------------ steps
    def _s_new(self, s):
        done = super()._s_new(s)
        if done is not False and self.cls is None:
            self.cls = type(self.handles[-1].real)
        return done

    def _s_setcap(self, s):
        if self.cls is None:
            return False
        n = s["n"]
        self.cls.set_buffer_capacity(n)
        self._set_cap(n)
        self.events["setcap"] += 1

    def _s_enter_cls(self, s):
        cap = s.get("cap")
        done = super()._s_enter_cls(s)
        if done is not False:
            if cap is not None:
                self.cap_stack.append(self.cap)
                self._set_cap(cap)
            else:
                self.cap_stack.append(None)
        return done

    def cap_after_unwind(self):
        """Capacity once every capacity context has been left: the bottom of the model's stack."""
        cap = self.cap
        for old in reversed(self.cap_stack):
            if old is not None:
                cap = old
        return cap

    def _s_exit(self, s):
        if not self.stack:
            return False
        if getattr(self, "dead", False):
            return False
        kind = self.stack[-1][0]
        before = {r: self.res_buffered(r) for r in range(len(self.res))}
        done = super()._s_exit(s)
        if getattr(self, "dead", False):
            return done
        after = {r: self.res_buffered(r) for r in range(len(self.res))}
        for r in before:
            if before[r] and not after[r]:
                self.inbuf.pop(r, None)
                self.modified.pop(r, None)
        if kind == "cls":
            old = self.cap_stack.pop()
            if old is not None:
                self._set_cap(old)
        return done

    def _states(self, r, pre_in, pre_bytes, loads, saves):
        """Admissible (inbuf, modified, forced?) states after one buffered access to file r."""
        inbuf, mod = dict(self.inbuf), dict(self.modified)
        if not loads and not saves:
            return [(inbuf, mod, False)]
        if self.strategy == "memory":
            forced = False
            if loads and not pre_in:
                inbuf[r] = True
                mod[r] = False
            if saves:
                inbuf[r] = True
                mod[r] = True
                if sum(1 for q, v in inbuf.items() if v and mod.get(q)) > self.cap:
                    mod = {}
                    forced = True
            return [(inbuf, mod, forced)]
        others = sum(self._bytes(q) for q, v in inbuf.items() if v and q != r)
        over = False
        if loads and not pre_in and others + pre_bytes > self.cap:
            over = True
        if (saves or (loads and not pre_in)) and others + self._bytes(r) > self.cap:
            over = True
        if not over:
            inbuf[r] = True
            return [(inbuf, mod, False)]
        out = [({}, {}, True)]
        if self._bytes(r) <= self.cap:
            out.append(({r: True}, {}, True))   # operations that load more than once re-enter r
        return out

    def _account(self, r, pre_in, pre_bytes, loads, saves, maybe_no_load=False):
        alts = self._states(r, pre_in, pre_bytes, loads, saves)
        if maybe_no_load:
            alts += self._states(r, pre_in, pre_bytes, False, saves)
        self.alts = alts

    def _check_acct(self, step):
        if getattr(self, "dead", False):
            # after a reported I/O failure of a flush only the bookkeeping is judged
            if self.cls is not None:
                if self.cls.get_current_buffer_size() != 0:
                    raise Mismatch("size_nonzero_after_failed_flush_and_exit", step=step,
                                   size=self.cls.get_current_buffer_size())
                if self.cls.get_buffer_capacity() != self.cap_after_unwind():
                    raise Mismatch("capacity_not_restored_after_failed_flush", step=step,
                                   got=self.cls.get_buffer_capacity(), expected=self.cap_after_unwind())
            return
        alts = getattr(self, "alts", None)
        self.alts = None
        if alts and self.cls is not None:
            got = self.cls.get_current_buffer_size()
            pick = alts[0]
            for st_ in alts:
                self.inbuf, self.modified = st_[0], st_[1]
                if self.model_size() == got:
                    pick = st_
                    break
            self.inbuf, self.modified = pick[0], pick[1]
            if pick[2]:
                self.forced += 1
                self.events["forced_flush"] += 1
        self._check_acct0(step)

    def _s_op(self, s):
        i = s["h"]
        if not self.usable(i):
            return False
        h = self.handles[i]
        root = self.root_of(h)
        buffered = root is not None and self.is_buffered_obj(root)
        r = h.res
        m = s["m"]
        mut = ops.is_mutator(h.kind, m)
        pre_bytes = self._bytes(r)
        pre_in = self.inbuf.get(r)
        n_before = len(self.model_at(h))
        done = super()._s_op(s)
        if done is False or not buffered:
            return done
        real, model = self.last
        no_load = mut and m in ("clear", "reset") and not h.path     # root shortcut
        outside_ctx = mut and (not model.ok) and (m in ("reset", "extend", "iadd", "update")
                                                  or model.family == "TypeError")
        if outside_ctx:
            return done
        saves = mut
        self._account(r, pre_in, pre_bytes, loads=not no_load, saves=saves,
                      maybe_no_load=(m == "index"))
        return done

    def _s_take(self, s):
        i = s["h"]
        if not self.usable(i):
            return False
        h = self.handles[i]
        root = self.root_of(h)
        buffered = root is not None and self.is_buffered_obj(root)
        r = h.res
        pre_in = self.inbuf.get(r)
        pre_bytes = self._bytes(r)
        done = super()._s_take(s)
        if done is False or not buffered:
            return done
        self._account(r, pre_in, pre_bytes, loads=True, saves=s.get("via") == "setdefault")
        return done
