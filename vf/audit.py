"""Process-wide audit-hook recorder for file-system writes (switchable; hooks cannot be removed)."""
import os
import sys

_state = {"on": False, "base": None, "events": []}
_installed = [False]

WRITE_EVENTS = {"os.rename", "os.remove", "os.truncate", "os.utime", "os.mkdir", "os.rmdir",
                "os.link", "os.symlink", "os.chmod", "os.chown", "shutil.copyfile", "shutil.move"}


def _under(p):
    base = _state["base"]
    if base is None:
        return False
    try:
        if isinstance(p, bytes):
            p = p.decode()
        if isinstance(p, int):
            return False
        return os.path.abspath(os.fspath(p)).startswith(base)
    except Exception:  # noqa: BLE001
        return False


def _hook(event, args):
    if not _state["on"]:
        return
    if event == "open":
        path, mode, flags = args
        wr = False
        if isinstance(mode, str):
            wr = any(c in mode for c in "wax+")
        elif isinstance(flags, int):
            wr = bool(flags & (os.O_WRONLY | os.O_RDWR | os.O_CREAT | os.O_TRUNC | os.O_APPEND))
        if wr and _under(path):
            _state["events"].append(("open-for-write", str(path), str(mode)))
    elif event in WRITE_EVENTS:
        if any(_under(a) for a in args[:2] if a is not None):
            _state["events"].append((event,) + tuple(str(a) for a in args[:2]))


def start(base):
    if not _installed[0]:
        sys.addaudithook(_hook)
        _installed[0] = True
    _state["base"] = os.path.abspath(base)
    _state["events"] = []
    _state["on"] = True


def stop():
    _state["on"] = False
    ev = _state["events"]
    _state["events"] = []
    return ev


def peek():
    return list(_state["events"])
