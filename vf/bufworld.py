"""World with buffered contexts (obj.buffered, Class.buffer_backend(capacity)) for C05/C15/C17."""
import copy

from .classes import ABSENT, HarnessError
from .plain import dec
from .world import Mismatch, World


class BufWorld(World):
    def __init__(self, *a, check_frozen=True, **kw):
        super().__init__(*a, **kw)
        self.stack = []          # [("obj", hid, ctx) | ("cls", cls, ctx)]
        self.obj_depth = {}      # hid -> int
        self.cls_depth = {}      # cls -> int
        self.frozen = {}         # res index -> (raw, stat) while its object(s) are buffered
        self.check_frozen = check_frozen
        self.ever_buffered_ops = 0
        self.absent_at_freeze = {}

    def step(self, s):
        if getattr(self, "dead", False):
            return False      # the case ended with a reported I/O failure
        return super().step(s)

    # ------------------------------------------------------------------ state
    def roots(self):
        return [i for i, h in enumerate(self.handles) if h.attached and not h.path and h.real is not None]

    def is_buffered_obj(self, hid):
        h = self.handles[hid]
        return self.obj_depth.get(hid, 0) > 0 or self.cls_depth.get(type(h.real), 0) > 0

    def res_buffered(self, r):
        if any(self.cls_depth.get(c, 0) > 0 for c in getattr(self, "ghosts", {}).get(r, ())):
            return True   # an object dropped by the user inside a class-wide context still counts
        return any(self.is_buffered_obj(i) for i in self.roots() if self.handles[i].res == r)

    def _s_drop(self, s):
        """The user drops every reference to a root object (and its children) and a GC pass runs."""
        import gc
        i = s["h"]
        if not self.usable(i) or self.handles[i].path:
            return False
        if self.obj_depth.get(i, 0) > 0:
            return False      # its own context is still open: the user still holds the object
        h = self.handles[i]
        cls = type(h.real)
        if not hasattr(self, "ghosts"):
            self.ghosts = {}
        if self.cls_depth.get(cls, 0) > 0:
            self.ghosts.setdefault(h.res, set()).add(cls)
        for g in self.handles:
            if g.obj == h.obj:
                g.attached = False
                g.real = None
        gc.collect()
        self.events["drop"] += 1

    def root_of(self, h):
        for i in self.roots():
            if self.handles[i].obj == h.obj:
                return i
        return None

    def _snapshot(self):
        return {r: self.res_buffered(r) for r in range(len(self.res))}

    def _transitions(self, before, exiting=False):
        after = self._snapshot()
        for r, was in before.items():
            now = after.get(r, False)
            if not was and now:
                res = self.res[r]
                self.frozen[r] = (res.raw(), res.stat() if hasattr(res, "stat") else None)
                self.absent_at_freeze[r] = res.raw() is None
                if ("shared_tree_detach" in self.excl and self.ci.buffered == "memory"
                        and sum(1 for i in self.roots() if self.handles[i].res == r) >= 2):
                    # known finding K1: in shared-memory buffered mode every object adopts ONE shared
                    # container, so child handles taken from an object before that are orphaned
                    for h in self.handles:
                        if h.res == r and h.path and h.attached:
                            h.attached = False
                            self.excluded += 1
            elif was and not now:
                self.frozen.pop(r, None)
                # a buffered session that leaves the logical content empty need not create the file
                empty = {} if self.root_ci[r].kind == "dict" else []
                if self.absent_at_freeze.pop(r, False) and self.docs[r] == empty:
                    self.may_be_absent[r] = True
                if self.check_resource:
                    self.check_res(r, step="after_outermost_exit")
                if ("absent_after_session" in self.excl and self.ci.buffered == "serialized"
                        and self.res[r].raw() is None
                        and sum(1 for i in self.roots() if self.handles[i].res == r) >= 2):
                    # known finding K2: objects keep phantom in-memory data when a shared
                    # buffered session ends with the file still absent
                    for h in self.handles:
                        if h.res == r and h.attached:
                            h.attached = False
                    self.excluded += 1

    def _check_frozen(self, step=None):
        if not self.check_frozen:
            return
        for r, (raw, stat) in self.frozen.items():
            res = self.res[r]
            now = (res.raw(), res.stat() if hasattr(res, "stat") else None)
            if now != (raw, stat):
                raise Mismatch("file_written_while_buffered", step=step, res=r,
                               before=repr((raw, stat))[:200], after=repr(now)[:200])

    # ------------------------------------------------------------------ steps
    def _s_new(self, s):
        before = self._snapshot()
        done = super()._s_new(s)
        if done is not False:
            # a new object on a class that is currently class-buffered is buffered from birth
            self._transitions(before)
        return done

    def _s_enter_obj(self, s):
        i = s["h"]
        if not self.usable(i) or self.handles[i].path:
            return False
        before = self._snapshot()
        ctx = self.handles[i].real.buffered
        ctx.__enter__()
        self.stack.append(("obj", i, ctx))
        self.obj_depth[i] = self.obj_depth.get(i, 0) + 1
        self._transitions(before)
        self.events["enter_obj"] += 1

    def _s_enter_cls(self, s):
        i = s["h"]
        if not self.usable(i) or self.handles[i].path:
            return False
        cls = type(self.handles[i].real)
        cap = s.get("cap")
        before = self._snapshot()
        ctx = cls.buffer_backend(cap) if cap is not None else cls.buffer_backend()
        ctx.__enter__()
        self.stack.append(("cls", cls, ctx))
        self.cls_depth[cls] = self.cls_depth.get(cls, 0) + 1
        self._transitions(before)
        self.events["enter_cls"] += 1

    def _s_exit_at(self, s):
        """Exit a context that is not the innermost one (contexts are independent counters)."""
        i = s.get("i", -1)
        if not (0 <= i < len(self.stack)):
            return False
        self.stack.append(self.stack.pop(i))
        return self._s_exit(s)

    def _s_exit(self, s):
        if not self.stack:
            return False
        kind, key, ctx = self.stack.pop()
        before = self._snapshot()
        if kind == "obj":
            self.obj_depth[key] -= 1
        else:
            self.cls_depth[key] -= 1
        fk = s.get("fault_k")
        faulted = False
        if fk:
            from . import sched
            sched.install_faults()
            sched.FAULTS.arm(fk, 5)   # EIO at the fk-th file-system call of the flush
        try:
            ctx.__exit__(None, None, None)
        except Exception as e:  # noqa: BLE001
            if fk and sched.FAULTS.fired:
                faulted = True     # a reported I/O failure: legitimate, the data of that file is lost
            else:
                if fk:
                    sched.FAULTS.disarm()
                raise Mismatch("exit_raised", step=s, error=f"{type(e).__name__}: {str(e)[:200]}")
        finally:
            if fk:
                sched.FAULTS.disarm()
        if faulted:
            # The failure was reported to the user. What the collections hold afterwards is not
            # specified by any property here, so the case ends: all contexts are left (errors of the
            # aftermath are the user's to handle) and only the buffer's bookkeeping is still judged.
            self.events["faulted_exit"] += 1
            from synced_collections.errors import BufferException
            while self.stack:
                k2, key2, ctx2 = self.stack.pop()
                if k2 == "obj":
                    self.obj_depth[key2] -= 1
                else:
                    self.cls_depth[key2] -= 1
                try:
                    ctx2.__exit__(None, None, None)
                except (BufferException, OSError):
                    pass
            self.frozen = {}
            self._aftermath(s)
            self.dead = True
            for h in self.handles:
                h.attached = False
            self.events["exit_" + kind] += 1
            return
        self._transitions(before, exiting=True)
        self._check_frozen(step=s)
        self.events["exit_" + kind] += 1
        if kind == "cls" and self.cls_depth.get(key, 0) == 0:
            for r in list(getattr(self, "ghosts", {})):
                self.ghosts[r].discard(key)

    write_probe_after_fault = True

    def _aftermath(self, s):
        """Every context has been left, one of the exits reported an I/O failure. Whatever the
        collections held is lost - but the failure must not linger: (1) a later buffered session
        that only READS serves the file's content and writes nothing; (2) no context is open, so a
        mutation is in the backend when the call returns (and nothing stays buffered)."""
        from .plain import kind_of
        for cls in {type(self.handles[i].real) for i in self.roots()}:
            if hasattr(cls, "get_current_buffer_size") and cls.get_current_buffer_size() != 0:
                raise Mismatch("buffer_size_nonzero_after_failed_exit", step=s, cls=cls.__name__,
                               size=cls.get_current_buffer_size())
        for i in self.roots():
            h = self.handles[i]
            res = self.res[h.res]
            try:
                F = res.read()
            except ValueError:
                continue        # the injected failure itself damaged the file (non-atomic mode)
            if F is not ABSENT and kind_of(F) != h.kind:
                continue
            raw0 = (res.raw(), res.stat() if hasattr(res, "stat") else None)
            try:
                with h.real.buffered:
                    v = h.real()
            except Exception as e:  # noqa: BLE001
                raise Mismatch("read_only_session_after_failed_exit_raised", step=s,
                               error=f"{type(e).__name__}: {str(e)[:160]}")
            raw1 = (res.raw(), res.stat() if hasattr(res, "stat") else None)
            if raw1 != raw0:
                raise Mismatch("read_only_session_after_failed_exit_wrote", step=s, res=h.res,
                               before=repr(raw0)[:160], after=repr(raw1)[:160])
            if F is not ABSENT and v != F:
                raise Mismatch("read_only_session_after_failed_exit_stale", step=s, got=v, expected=F)
            self.events["aftermath_read_session"] += 1
            if not self.write_probe_after_fault:
                continue
            exp = copy.deepcopy(F) if F is not ABSENT else ({} if h.kind == "dict" else [])
            try:
                if h.kind == "dict":
                    h.real["zz_after_fault"] = 1
                    exp["zz_after_fault"] = 1
                else:
                    h.real.append("zz_after_fault")
                    exp.append("zz_after_fault")
            except Exception as e:  # noqa: BLE001
                raise Mismatch("write_after_failed_exit_raised", step=s,
                               error=f"{type(e).__name__}: {str(e)[:160]}")
            try:
                got = res.read()
            except ValueError:
                got = "<unparsable>"
            if F is ABSENT:
                # a missing file never resets what the object holds: only the probe itself is known
                ok = (isinstance(got, dict) and got.get("zz_after_fault") == 1) or \
                     (isinstance(got, list) and got[-1:] == ["zz_after_fault"])
            else:
                ok = got == exp
            if not ok:
                raise Mismatch("write_after_failed_exit_not_in_backend", step=s, got=got, expected=exp)
            cls = type(h.real)
            if hasattr(cls, "get_current_buffer_size") and cls.get_current_buffer_size() != 0:
                raise Mismatch("buffer_not_empty_outside_any_context", step=s, cls=cls.__name__,
                               size=cls.get_current_buffer_size())
            self.events["aftermath_write_probe"] += 1

    def _s_setcap(self, s):
        roots = self.roots()
        if not roots or not self.ci.buffered:
            return False
        type(self.handles[roots[0]].real).set_buffer_capacity(s["n"])

    def _s_op(self, s):
        i = s["h"]
        buffered = False
        if self.usable(i):
            root = self.root_of(self.handles[i])
            buffered = root is not None and self.is_buffered_obj(root)
        save = self.check_resource
        if buffered:
            self.check_resource = False
            self.ever_buffered_ops += 1
        try:
            done = super()._s_op(s)
        finally:
            self.check_resource = save
        if done is not False:
            self._check_frozen(step=s)
            if buffered:
                self.events[("buffered_op", s["m"])] += 1
        return done

    def _s_take(self, s):
        done = super()._s_take(s)
        if done is not False:
            self._check_frozen(step=s)
        return done

    def unwind(self):
        while self.stack:
            if self._s_exit({"t": "exit"}) is False:
                break

    def final_check(self):
        self.unwind()
        if getattr(self, "dead", False):
            return     # ended by a reported I/O failure: contents are no longer specified
        super().final_check()
        for i in self.roots():
            cls = type(self.handles[i].real)
            if hasattr(cls, "get_current_buffer_size"):
                n = cls.get_current_buffer_size()
                if n != 0:
                    raise Mismatch("buffer_size_nonzero_at_end", cls=cls.__name__, size=n)
