"""The 18 concrete collection classes, their families, resources, fakes.

A *resource* knows how to (a) build a root collection object bound to it,
(b) read its content independently of the library (``read``), (c) store
content bypassing the library (``write``, the outside writer).
"""
import copy
import json
import os

import bson  # the fake under /verif/fakes (makes MONGO true)
import numcodecs  # the fake under /verif/fakes (makes ZARR true)

from synced_collections.backends import collection_json as cj
from synced_collections.backends import collection_mongodb as cm
from synced_collections.backends import collection_redis as cr
from synced_collections.backends import collection_zarr as cz

assert cm.MONGO and cz.ZARR, "fakes not importable"


class _Absent:
    def __repr__(self):
        return "ABSENT"

    def __copy__(self):
        return self

    def __deepcopy__(self, memo):
        return self

    def __reduce__(self):
        return (_absent, ())


def _absent():
    return ABSENT


ABSENT = _Absent()


class HarnessError(Exception):
    """The harness (not the library) is broken or mis-used: exit 2, never a VIOLATION."""


# --------------------------------------------------------------------------- fakes


class FakeRedis:
    """redis-py call-compatible for get/set; values restricted like redis-py."""

    def __init__(self):
        self.store = {}
        self.n_get = 0
        self.n_set = 0

    def get(self, key):
        self.n_get += 1
        return self.store.get(key)

    def set(self, key, value):
        self.n_set += 1
        if getattr(self, "fail_writes", False):
            raise ConnectionError("injected: redis unavailable")
        if isinstance(value, bytes):
            b = value
        elif isinstance(value, str):
            b = value.encode()
        elif isinstance(value, (int, float)) and not isinstance(value, bool):
            b = repr(value).encode()
        else:
            raise TypeError(f"Invalid input of type: '{type(value).__name__}'")
        self.store[key] = b
        return True

    def flushall(self):
        self.store.clear()


def _bson_check(x, top=True):
    if x is None or isinstance(x, (bool, float, str)):
        return
    if isinstance(x, int):
        if not (-(2**63) <= x < 2**63):
            raise OverflowError("MongoDB can only handle up to 8-byte ints")
        return
    if type(x) is dict:
        for k, v in x.items():
            if not isinstance(k, str):
                raise bson.errors.InvalidDocument(
                    f"documents must have only string keys, key was {k!r}"
                )
            if "\x00" in k:
                raise bson.errors.InvalidDocument("Key names must not contain the NULL byte")
            _bson_check(v, False)
        return
    if type(x) in (list, tuple):
        for v in x:
            _bson_check(v, False)
        return
    raise bson.errors.InvalidDocument(f"cannot encode object: {x!r}, of type: {type(x)}")


class FakeMongoCollection:
    """pymongo Collection call-compatible for find_one / replace_one(filter, doc, upsert)."""

    def __init__(self):
        self.docs = []
        self.n_find = 0
        self.n_replace = 0

    def _match(self, flt):
        for i, d in enumerate(self.docs):
            if all(k in d and d[k] == v for k, v in flt.items()):
                return i
        return None

    def find_one(self, flt=None):
        self.n_find += 1
        i = self._match(flt or {})
        return None if i is None else copy.deepcopy(self.docs[i])

    def replace_one(self, flt, replacement, upsert=False):
        self.n_replace += 1
        if getattr(self, "fail_writes", False):
            raise ConnectionError("injected: mongodb unavailable")
        _bson_check(replacement)
        doc = copy.deepcopy(replacement)
        i = self._match(flt)
        if i is None:
            if upsert:
                self.docs.append(doc)
        else:
            self.docs[i] = doc


class _FakeZarrDataset:
    def __init__(self, codec):
        self.codec = codec
        self.blob = None
        self.n_set = 0

    def __setitem__(self, idx, value):
        if idx != 0:
            raise IndexError(idx)
        self.n_set += 1
        if getattr(self, "fail_writes", False):
            raise OSError("injected: zarr store unavailable")
        self.blob = self.codec.encode(value)

    def __getitem__(self, idx):
        if idx != 0:
            raise IndexError(idx)
        if self.blob is None:
            return 0  # zarr fill value of an unwritten object array
        return self.codec.decode(self.blob)


class FakeZarrGroup:
    """zarr Group call-compatible for __getitem__ / require_dataset."""

    def __init__(self):
        self.sets = {}
        self.n_require = 0

    def __getitem__(self, name):
        return self.sets[name]

    def require_dataset(self, name, overwrite=False, shape=None, dtype=None, object_codec=None):
        self.n_require += 1
        if shape != 1 or dtype != "object" or object_codec is None:
            raise HarnessError("fake zarr: unexpected require_dataset arguments")
        if getattr(self, "fail_writes", False):
            raise OSError("injected: zarr store unavailable")
        if overwrite or name not in self.sets:
            self.sets[name] = _FakeZarrDataset(object_codec)
        return self.sets[name]


# --------------------------------------------------------------------------- class table


class ClassInfo:
    def __init__(self, cls, kind, family, backend, attr=False, buffered=None):
        self.cls = cls
        self.name = cls.__name__
        self.kind = kind  # 'dict' | 'list'
        self.family = family
        self.backend = backend  # 'json' | 'redis' | 'mongo' | 'zarr'
        self.attr = attr
        self.buffered = buffered  # None | 'serialized' | 'memory'

    @property
    def dict_cls(self):
        return FAMILY[self.family][0].cls

    @property
    def list_cls(self):
        return FAMILY[self.family][1].cls

    @property
    def peer(self):
        """The other data type of the same family."""
        d, l = FAMILY[self.family]
        return l if self.kind == "dict" else d

    def __repr__(self):
        return self.name


_T = [
    (cj.JSONDict, cj.JSONList, "json", "json", False, None),
    (cj.BufferedJSONDict, cj.BufferedJSONList, "json_buf", "json", False, "serialized"),
    (cj.MemoryBufferedJSONDict, cj.MemoryBufferedJSONList, "json_mem", "json", False, "memory"),
    (cj.JSONAttrDict, cj.JSONAttrList, "attr", "json", True, None),
    (cj.BufferedJSONAttrDict, cj.BufferedJSONAttrList, "buf_attr", "json", True, "serialized"),
    (cj.MemoryBufferedJSONAttrDict, cj.MemoryBufferedJSONAttrList, "mem_attr", "json", True, "memory"),
    (cr.RedisDict, cr.RedisList, "redis", "redis", False, None),
    (cm.MongoDBDict, cm.MongoDBList, "mongo", "mongo", False, None),
    (cz.ZarrDict, cz.ZarrList, "zarr", "zarr", False, None),
]

FAMILY = {}
CLASSES = {}
for d, l, fam, be, attr, buf in _T:
    FAMILY[fam] = (ClassInfo(d, "dict", fam, be, attr, buf), ClassInfo(l, "list", fam, be, attr, buf))
    for ci in FAMILY[fam]:
        CLASSES[ci.name] = ci

ALL = list(CLASSES.values())
JSON_ALL = [c for c in ALL if c.backend == "json"]
BUFFERED = [c for c in ALL if c.buffered]
NAMES = [c.name for c in ALL]


def info_of(obj):
    return CLASSES[type(obj).__name__]


# --------------------------------------------------------------------------- resources


class JsonRes:
    backend = "json"

    def __init__(self, path):
        self.path = path
        self._bump = 0

    def make(self, ci, **kw):
        return ci.cls(filename=self.path, **kw)

    def raw(self):
        try:
            with open(self.path, "rb") as f:
                return f.read()
        except FileNotFoundError:
            return None

    def read(self):
        b = self.raw()
        return ABSENT if b is None else json.loads(b)

    def stat(self):
        try:
            s = os.stat(self.path)
            return (s.st_ino, s.st_size, s.st_mtime_ns)
        except FileNotFoundError:
            return None

    def write(self, doc, raw=None):
        """Outside writer: new inode, and an mtime strictly later than before (no sleeping)."""
        old = self.stat()
        blob = raw if raw is not None else json.dumps(doc).encode()
        tmp = self.path + ".outside"
        with open(tmp, "wb") as f:
            f.write(blob)
        os.replace(tmp, self.path)
        s = os.stat(self.path)
        self._bump += 1
        floor = max(s.st_mtime_ns, old[2] if old else 0)
        t = floor + 1_000_000 * self._bump
        os.utime(self.path, ns=(t, t))

    def remove(self):
        try:
            os.remove(self.path)
        except FileNotFoundError:
            pass

    def write_count(self):
        return None


class RedisRes:
    backend = "redis"

    def __init__(self, client=None, key="k"):
        self.client = client or FakeRedis()
        self.key = key

    def make(self, ci, **kw):
        return ci.cls(client=self.client, key=self.key, **kw)

    def raw(self):
        return self.client.store.get(self.key)

    def read(self):
        b = self.raw()
        return ABSENT if b is None else json.loads(b)

    def write(self, doc, raw=None):
        self.client.store[self.key] = raw if raw is not None else json.dumps(doc).encode()

    def remove(self):
        self.client.store.pop(self.key, None)

    def write_count(self):
        return self.client.n_set


class MongoRes:
    backend = "mongo"

    def __init__(self, coll=None, uid=None):
        self.coll = coll or FakeMongoCollection()
        self.uid = uid or {"uid": "x"}

    def make(self, ci, **kw):
        return ci.cls(collection=self.coll, uid=dict(self.uid), **kw)

    def _idx(self):
        return self.coll._match(self.uid)

    def raw(self):
        i = self._idx()
        return None if i is None else repr(self.coll.docs[i]).encode()

    def read(self):
        i = self._idx()
        return ABSENT if i is None else copy.deepcopy(self.coll.docs[i]["data"])

    def write(self, doc, raw=None):
        d = {**self.uid, "data": copy.deepcopy(doc)}
        i = self._idx()
        if i is None:
            self.coll.docs.append(d)
        else:
            self.coll.docs[i] = d

    def remove(self):
        i = self._idx()
        if i is not None:
            del self.coll.docs[i]

    def write_count(self):
        return self.coll.n_replace


class ZarrRes:
    backend = "zarr"

    def __init__(self, group=None, name="n"):
        self.group = group or FakeZarrGroup()
        self.name = name

    def make(self, ci, **kw):
        return ci.cls(group=self.group, name=self.name, **kw)

    def raw(self):
        ds = self.group.sets.get(self.name)
        return None if ds is None else ds.blob

    def read(self):
        b = self.raw()
        return ABSENT if b is None else json.loads(b)

    def write(self, doc, raw=None):
        ds = _FakeZarrDataset(numcodecs.JSON())
        ds.blob = raw if raw is not None else json.dumps(doc, sort_keys=True).encode()
        self.group.sets[self.name] = ds

    def remove(self):
        self.group.sets.pop(self.name, None)

    def write_count(self):
        return self.group.n_require + sum(d.n_set for d in self.group.sets.values())


def new_resource(ci, directory, name="d.json"):
    if ci.backend == "json":
        return JsonRes(os.path.join(directory, name))
    if ci.backend == "redis":
        return RedisRes(key=name)
    if ci.backend == "mongo":
        return MongoRes(uid={"uid": name})
    if ci.backend == "zarr":
        return ZarrRes(name=name)
    raise HarnessError(ci.backend)


_SCALARS = (int, float, str, bool, type(None), tuple, frozenset)
_PRISTINE = {}


def _state_classes():
    """The buffered classes and every class of the library's buffers package in their MROs."""
    out = []
    for ci in BUFFERED:
        for k in ci.cls.__mro__:
            mod = getattr(k, "__module__", "")
            if k is ci.cls or mod.startswith("synced_collections.buffers"):
                if k not in out:
                    out.append(k)
    return out


def _is_state_object(v):
    import types
    return (type(v).__module__.startswith("synced_collections") and not isinstance(v, type)
            and not isinstance(v, (types.FunctionType, classmethod, staticmethod, property))
            and hasattr(v, "__dict__"))


def _capture_pristine():
    """Snapshot, right after import, the class-level state of the buffering machinery - by VALUE
    KIND, not by attribute name, so that the harness survives renamings of private attributes."""
    for k in _state_classes():
        entry = {}
        for name, v in list(vars(k).items()):
            if name.startswith("__"):
                continue
            if isinstance(v, (dict, list, set)):
                entry[name] = ("c", copy.copy(v))
            elif isinstance(v, _SCALARS):
                entry[name] = ("s", v)
            elif _is_state_object(v):
                entry[name] = ("o", {n: copy.copy(x) for n, x in vars(v).items()
                                     if isinstance(x, (dict, list, set) + _SCALARS)})
        _PRISTINE[k] = entry


def _restore(container, pristine):
    if isinstance(container, dict):
        container.clear()
        container.update(pristine)
    elif isinstance(container, list):
        container[:] = pristine
    elif isinstance(container, set):
        container.clear()
        container.update(pristine)


def reset_class_state():
    """Forget per-class buffer state between cases (each case uses fresh files anyway): every
    class-level container / scalar / context object of the buffering machinery is put back to what it
    was right after import; attributes that appeared since (e.g. a per-class capacity) are removed."""
    if not _PRISTINE:
        _capture_pristine()
    for k, entry in _PRISTINE.items():
        for name, v in list(vars(k).items()):
            if name.startswith("__"):
                continue
            if name not in entry:
                if isinstance(v, (dict, list, set) + _SCALARS):
                    try:
                        delattr(k, name)
                    except (AttributeError, TypeError):
                        pass
                continue
            kind, val = entry[name]
            if kind == "c" and isinstance(v, (dict, list, set)):
                _restore(v, val)
            elif kind == "s":
                if v is not val and v != val or type(v) is not type(val):
                    setattr(k, name, val)
            elif kind == "o" and hasattr(v, "__dict__"):
                for n, x in list(vars(v).items()):
                    if n in val:
                        if isinstance(x, (dict, list, set)) and isinstance(val[n], type(x)):
                            _restore(x, val[n])
                        elif isinstance(val[n], _SCALARS):
                            setattr(v, n, val[n])
                    elif isinstance(x, (dict, list, set) + _SCALARS):
                        try:
                            delattr(v, n)
                        except (AttributeError, TypeError):
                            pass
        for name, (kind, val) in entry.items():
            if name not in vars(k) and kind == "s":
                setattr(k, name, val)


_capture_pristine()
