"""Shared pieces of the schedule-based checks: linearizability oracle, schedule enumeration."""
import copy
import itertools

from . import ops, sched
from .classes import HarnessError
from .ops import Outcome
from .plain import dec, enc
from .world import get_path


def _outcome(brief):
    if brief[0] == "ok":
        return Outcome(True, brief[1])
    return Outcome(False, family=brief[1], detail=brief[2] if len(brief) > 2 else None)


def interleavings(lengths):
    """All merges of per-thread op sequences that respect each thread's program order."""
    n = len(lengths)

    def rec(pos):
        done = True
        for t in range(n):
            if pos[t] < lengths[t]:
                done = False
                pos2 = list(pos)
                pos2[t] += 1
                for rest in rec(tuple(pos2)):
                    yield [(t, pos[t])] + rest
        if done:
            yield []
    return rec(tuple([0] * n))


def serial_run(program, order, hist, doc_index_of, paths, kinds):
    """Apply the ops in ``order`` to plain models. Returns (ok, final docs) - ok iff every real
    outcome equals the model's in this serial order."""
    docs = [None if d == "$ABSENT" else copy.deepcopy(dec(d)) for d in program["docs"]]
    roots = program["root_kinds"]
    for i, d in enumerate(docs):
        if d is None:
            docs[i] = {} if roots[i] == "dict" else []
    for op in program.get("pre_ops", []):
        # operations the main thread performed (inside the context) before the threads started
        h = op["h"]
        try:
            cont = get_path(docs[doc_index_of[h]], paths[h])
        except LookupError:
            return False, None
        ops.model_apply(cont, kinds[h], op["m"], dec(op.get("a", [])), dec(op.get("kw", {})))
    for (t, n) in order:
        op = program["threads"][t][n]
        h = op["h"]
        try:
            cont = get_path(docs[doc_index_of[h]], paths[h])
        except LookupError:
            return False, None
        real = _outcome(hist[t][n]["out"])
        model = ops.model_apply(cont, kinds[h], op["m"], dec(op.get("a", [])), dec(op.get("kw", {})),
                                real_out=real)
        if not ops.same_outcome(kinds[h], op["m"], real, model):
            return False, None
    return True, docs


def precedence_ok(order, hist):
    """Real-time order: if a responded before b was invoked, a must come first."""
    pos = {x: i for i, x in enumerate(order)}
    items = list(pos)
    for a in items:
        for b in items:
            if a != b and hist[a[0]][a[1]]["res"] < hist[b[0]][b[1]]["inv"] and pos[a] > pos[b]:
                return False
    return True


def linearizable(program, res, real_time=False):
    """Is there a serial order explaining all outcomes and the final file contents?"""
    hist = res["history"]
    lengths = [len(t) for t in program["threads"]]
    if [len(h) for h in hist] != lengths:
        return False, "a thread did not complete all of its operations"
    paths, doc_index_of = handle_paths(program)
    kinds = program["kinds"]
    final = []
    for f in res["final"]:
        if isinstance(f, dict) and "$unreadable" in f:
            return False, f"file unreadable afterwards: {f['$unreadable']}"
        final.append(None if f == "$ABSENT" else dec(f))
    for order in interleavings(lengths):
        if real_time and not precedence_ok(order, hist):
            continue
        ok, docs = serial_run(program, order, hist, doc_index_of, paths, kinds)
        if not ok:
            continue
        match = True
        for i, d in enumerate(docs):
            f = final[i]
            if f is None:
                if d not in ({}, []):
                    match = False
            elif f != d:
                match = False
        if match:
            return True, order
    return False, "no serial order reproduces the observed results and final content"


def handle_paths(program):
    paths, doc_of = [], []
    for h in program["handles"]:
        if "file" in h:
            paths.append(())
            doc_of.append(h["file"])
        else:
            paths.append(paths[h["of"]] + tuple(dec(h["path"])))
            doc_of.append(doc_of[h["of"]])
    return paths, doc_of


MAX_SCHEDULES = [2500]   # per program; the thorough tier raises it (set by the check modules)


def one_preemption_schedules(program, T, full_limit=1600, per_site=2):
    """Baselines for every start thread and the single-preemption schedules derived from them.

    If the complete set (every step x every other thread) has at most ``full_limit`` members it is
    returned in full (exhaustive); otherwise every distinct preemption site (thread, operation,
    source line / lock event) is covered by its first ``per_site`` occurrences.
    Returns (baselines, baseline results, schedules, exhaustive?).
    """
    base = [{"start": s, "pre": {}, "record_sites": True} for s in range(T)]
    bres = sched.explore(program, base)
    total = sum(len(r.get("owners", b"")) for r in bres) * (T - 1)
    exhaustive = total <= full_limit
    if total > 6 * full_limit:
        per_site = 1
    out = []
    for s, r in zip(base, bres):
        owners = r.get("owners", b"")
        sites = r.get("sites") or [None] * len(owners)
        seen = {}
        for k in range(1, len(owners) + 1):
            cur = owners[k - 1]
            if not exhaustive:
                key = sites[k - 1]
                seen[key] = seen.get(key, 0) + 1
                if seen[key] > per_site:
                    continue
            for j in range(T):
                if j != cur:
                    out.append({"start": s["start"], "pre": {k: j}})
    if len(out) > MAX_SCHEDULES[0]:
        # very long programs: an evenly spaced subset (deterministic), never reported as exhaustive
        stride = len(out) / MAX_SCHEDULES[0]
        out = [out[int(i * stride)] for i in range(MAX_SCHEDULES[0])]
        exhaustive = False
    return base, bres, out, exhaustive


def overlapping(res):
    """Did some switch preempt a thread in the middle of an operation (true interleaving)?"""
    return [sw for sw in res["switches"] if sw[4] and not str(sw[3]).startswith("blocked")]
