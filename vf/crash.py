"""Crash injector (C08): run a save in a forked child and kill it at an enumerated point."""
import builtins
import io
import os
import pickle
import sys

from . import env
from .classes import HarnessError

LIB = env.LIB + os.sep
IO_EVENTS = {"open", "os.rename", "os.remove", "os.truncate", "os.unlink"}


class Arm:
    """Counters armed in the child just before the operation under test."""

    def __init__(self, kind=None, k=None, j=None):
        self.kind, self.k, self.j = kind, k, j     # kind: None|'line'|'io'|'write'
        self.lines = 0
        self.ios = []
        self.io_lines = []
        self.writes = []   # (path, length)
        self.on = False

    def die(self):
        os._exit(137)


def _lib_caller(depth=2, span=4):
    f = sys._getframe(depth)
    for _ in range(span):
        if f is None:
            return False
        if f.f_code.co_filename.startswith(LIB):
            return True
        f = f.f_back
    return False


class _WProxy:
    def __init__(self, f, path, arm):
        self._f, self._path, self._arm = f, path, arm

    def write(self, b):
        arm = self._arm
        if arm.on:
            arm.writes.append((self._path, len(b)))
            if arm.kind == "write" and len(arm.writes) == arm.k:
                # j bytes reach the file, then the process dies (no Python-level buffering survives)
                self._f.flush()
                os.write(self._f.fileno(), bytes(b[:arm.j]))
                arm.die()
        return self._f.write(b)

    def __enter__(self):
        self._f.__enter__()
        return self

    def __exit__(self, *a):
        return self._f.__exit__(*a)

    def __getattr__(self, n):
        return getattr(self._f, n)


def install(arm):
    """Install tracing / audit / open wrappers in the *child* (never undone: the child dies)."""
    real_open = builtins.open

    def open_(file, mode="r", *a, **kw):
        f = real_open(file, mode, *a, **kw)
        if arm.on and isinstance(mode, str) and any(c in mode for c in "wax+"):
            # a crash point right AFTER a write-mode open returned (the file may be truncated now),
            # whoever opened it on the library's behalf (e.g. shutil)
            arm.ios.append("opened-for-write")
            arm.io_lines.append(arm.lines)
            if arm.kind == "io" and len(arm.ios) == arm.k:
                arm.die()
            if _lib_caller(2):
                return _WProxy(f, os.fspath(file) if not isinstance(file, int) else str(file), arm)
        return f

    builtins.open = open_
    io.open = open_

    def audit(event, args):
        if not arm.on or event not in IO_EVENTS:
            return
        if not _lib_caller(2, 6):
            return
        arm.ios.append(event)
        arm.io_lines.append(arm.lines)
        if arm.kind == "io" and len(arm.ios) == arm.k:
            arm.die()

    sys.addaudithook(audit)

    def tracer(frame, event, arg):
        if frame.f_code.co_filename.startswith(LIB):
            return local
        return None

    def local(frame, event, arg):
        if event == "line" and arm.on:
            arm.lines += 1
            if arm.kind == "line" and arm.lines == arm.k:
                arm.die()
        return local

    sys.settrace(tracer)


def run_child(setup, action, arm_spec):
    """Fork; child: setup() -> state, arm, action(state). Returns (exit status, measurement)."""
    r, w = os.pipe()
    pid = os.fork()
    if pid == 0:
        os.close(r)
        code = 3
        try:
            arm = Arm(*arm_spec) if arm_spec else Arm()
            state = setup()
            install(arm)
            arm.on = True
            err = None
            try:
                action(state)
            except BaseException as e:  # noqa: BLE001
                err = f"{type(e).__name__}: {str(e)[:200]}"
            arm.on = False
            sys.settrace(None)
            with os.fdopen(w, "wb") as f:
                f.write(pickle.dumps({"lines": arm.lines, "ios": arm.ios, "io_lines": arm.io_lines, "writes": arm.writes,
                                      "error": err}))
            code = 0
        except BaseException as e:  # noqa: BLE001
            try:
                os.write(w, pickle.dumps({"harness_error": f"{type(e).__name__}: {e}"}))
            except Exception:  # noqa: BLE001
                pass
            code = 4
        finally:
            os._exit(code)
    os.close(w)
    with os.fdopen(r, "rb") as f:
        data = f.read()
    _, status = os.waitpid(pid, 0)
    rc = os.waitstatus_to_exitcode(status)
    meas = pickle.loads(data) if data else None
    if meas and meas.get("harness_error"):
        raise HarnessError("crash child: " + meas["harness_error"])
    if rc not in (0, 137):
        raise HarnessError(f"crash child exited with {rc}")
    return rc, meas
