"""Process environment: seed, tier, scratch directories.

Nothing here draws randomness; VERIF_SEED is only turned into Hypothesis seeds.
"""
import atexit
import os
import shutil
import tempfile

VERIF = os.path.dirname(os.path.dirname(os.path.abspath(__file__)))
REPO = os.environ.get("VF_REPO", "/repo")
LIB = os.path.join(REPO, "synced_collections")
# where evidence and new replay files are written (experiments against seeded changes redirect it)
OUT = os.environ.get("VF_OUT", VERIF)


def seed():
    try:
        return int(os.environ.get("VERIF_SEED", "1"))
    except ValueError:
        return 1


def tier(default="quick"):
    t = os.environ.get("VERIF_TIER", default)
    return t if t in ("quick", "thorough") else default


_SCRATCH = []


def _cleanup():
    for d, pid in _SCRATCH:
        if pid == os.getpid():
            shutil.rmtree(d, ignore_errors=True)


atexit.register(_cleanup)


def scratch(prefix="vf"):
    """Fresh private directory (tmpfs if available); removed when this process exits."""
    base = "/dev/shm" if os.path.isdir("/dev/shm") and os.access("/dev/shm", os.W_OK) else None
    d = tempfile.mkdtemp(prefix=f"{prefix}-{os.getpid()}-", dir=base)
    _SCRATCH.append((d, os.getpid()))
    return d


def rm(d):
    shutil.rmtree(d, ignore_errors=True)


def cleanup_now():
    """Pool workers leave through os._exit (no atexit): shards call this explicitly."""
    _cleanup()
    del _SCRATCH[:]


def sweep_stale(base="/dev/shm"):
    """Remove scratch directories of processes that no longer exist (killed runs)."""
    import re
    try:
        names = os.listdir(base)
    except OSError:
        return 0
    n = 0
    for name in names:
        m = re.match(r"vf\w*-(\d+)-", name)
        if m and not os.path.exists(f"/proc/{m.group(1)}"):
            shutil.rmtree(os.path.join(base, name), ignore_errors=True)
            n += 1
    return n
