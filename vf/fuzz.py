"""Coverage-guided campaigns (atheris / libFuzzer) over the same case functions Hypothesis drives.

The fuzzer mutates a byte string; ``test.hypothesis.fuzz_one_input`` turns it into the draws of the
property's ``one(data)`` function, so generator, interpreter and oracle are exactly those of the
Hypothesis search - only the search strategy differs (edge coverage of ``synced_collections`` as
feedback instead of random generation). Runs in a child process (libFuzzer never returns); thorough
tier only. If atheris cannot be imported the campaign is skipped and the evidence says so.
"""
import json
import os
import re
import shutil
import subprocess
import sys

from . import env
from .runner import CaseFailure

RUNS = {"quick": 300, "thorough": 4000}


def available():
    try:
        import atheris  # noqa: F401
        return True
    except Exception:  # noqa: BLE001
        return False


def run_campaign(modname, spec, seed, acc, minimise=None, runs=None, tier=None):
    """Parent side: start the child, collect statistics and (if any) the failing case."""
    tier = tier or env.tier()
    runs = runs or RUNS.get(tier, 300)
    out = env.scratch("vffuzz")
    os.makedirs(os.path.join(out, "corpus"), exist_ok=True)
    if not available():
        acc.counters["fuzz.skipped_atheris_missing"] += 1
        shutil.rmtree(out, ignore_errors=True)
        return acc.result()
    cmd = [sys.executable, "-W", "ignore", "-m", "vf.fuzz_child", modname, json.dumps(spec), str(seed),
           str(runs), out, tier]
    try:
        p = subprocess.run(cmd, stdout=subprocess.PIPE, stderr=subprocess.STDOUT, text=True, timeout=3600,
                           cwd=os.path.dirname(os.path.dirname(os.path.abspath(__file__))))
        log = p.stdout
        rc = p.returncode
    except subprocess.TimeoutExpired as e:
        log, rc = (e.stdout or ""), -1
    stats = {}
    try:
        with open(os.path.join(out, "stats.json")) as f:
            stats = json.load(f)
    except (OSError, ValueError):
        pass
    cov = [int(m.group(1)) for m in re.finditer(r"cov: (\d+)", log)]
    execs = stats.get("executions", 0)
    r = stats.get("result", {})
    acc.evaluations += r.get("evaluations", 0)
    acc.nt.update(r.get("nt", []))
    for smp in r.get("samples", [])[:2]:
        if len(acc.samples) < 2 and isinstance(smp, dict):
            acc.samples.append(dict(smp, engine="atheris"))
    acc.counters.update(r.get("counters", {}))
    acc.counters["fuzz.campaigns"] += 1
    acc.counters["fuzz.inputs_executed"] += execs
    acc.counters["fuzz.edges_covered_sum_over_campaigns"] += max(cov, default=0)
    fpath = os.path.join(out, "failure.json")
    if os.path.exists(fpath):
        with open(fpath) as f:
            fail = json.load(f)
        cf = CaseFailure(fail["case"], fail["desc"])
        acc.failures.append(minimise(cf) if minimise else {"case": cf.case, "desc": cf.desc})
    elif rc not in (0,) and not execs:
        # the child could not run at all: a harness problem of this optional engine, reported in the
        # evidence, never as a violation
        acc.counters["fuzz.child_failed"] += 1
        acc.extra["fuzz_child_log_tail"] = log[-400:]
    shutil.rmtree(out, ignore_errors=True)
    return acc.result()
