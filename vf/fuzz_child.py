"""Child process of vf.fuzz: one atheris (libFuzzer) campaign over a property's case function."""
import importlib
import json
import os
import sys


def main():
    modname, spec, seed, runs, out, tier = sys.argv[1:7]
    spec, seed, runs = json.loads(spec), int(seed), int(runs)
    import atheris
    with atheris.instrument_imports(include=["synced_collections"]):
        import synced_collections  # noqa: F401
        import synced_collections.backends.collection_json  # noqa: F401
        import synced_collections.buffers.memory_buffered_collection  # noqa: F401
        import synced_collections.buffers.serialized_file_buffered_collection  # noqa: F401
        import synced_collections.data_types.attr_dict  # noqa: F401
        import synced_collections.validators  # noqa: F401
        import synced_collections.numpy_utils  # noqa: F401
    from hypothesis import HealthCheck, Phase, given, settings
    from hypothesis import strategies as st
    from vf import env
    from vf.runner import Acc, CaseFailure
    mod = importlib.import_module("vf.props." + modname)
    acc = Acc()
    one = mod.make_one(spec, tier, acc)
    state = {"n": 0}

    @settings(database=None, deadline=None, phases=[Phase.generate], suppress_health_check=list(HealthCheck),
              print_blob=False)
    @given(st.data())
    def test(data):
        one(data)

    def dump():
        r = acc.result()
        with open(os.path.join(out, "stats.json.tmp"), "w") as f:
            json.dump({"executions": state["n"], "result": r}, f)
        os.replace(os.path.join(out, "stats.json.tmp"), os.path.join(out, "stats.json"))

    def one_input(b):
        state["n"] += 1
        try:
            test.hypothesis.fuzz_one_input(b)
        except CaseFailure as cf:
            with open(os.path.join(out, "failure.json"), "w") as f:
                json.dump({"case": cf.case, "desc": cf.desc}, f)
            dump()
            env.cleanup_now()
            os._exit(0)
        if state["n"] % 100 == 0 or state["n"] >= runs:
            dump()
            if state["n"] >= runs:
                env.cleanup_now()
                os._exit(0)

    # starting corpus: byte strings long enough to feed whole cases (libFuzzer's own first inputs are
    # a few bytes, which the draw layer rejects as "ran out of data"); derived from the seed only
    import hashlib
    corpus = os.path.join(out, "corpus")
    os.makedirs(corpus, exist_ok=True)
    for i in range(8):
        blob, h = b"", hashlib.sha256(f"{seed}:{i}".encode()).digest()
        while len(blob) < 256 * (i + 1):
            blob += h
            h = hashlib.sha256(h).digest()
        with open(os.path.join(corpus, f"seed{i}"), "wb") as f:
            f.write(blob)
    atheris.Setup([sys.argv[0], f"-runs={runs + 10}", f"-seed={seed % (2**31 - 1) + 1}", "-max_len=4096",
                   "-len_control=0", "-print_final_stats=1", corpus], one_input)
    atheris.Fuzz()


if __name__ == "__main__":
    main()
