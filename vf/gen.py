"""Hypothesis strategies and step drawing. Every random choice goes through ``draw``."""
from hypothesis import strategies as st

from . import ops
from .plain import Ref, Slice, enc, kind_of
from .world import container_paths

SMALL_KEYS = ["a", "b", "c", "", "k.x"]
SPECIAL_TEXT = ["", ".", "a.b", '"', "\\", "\u0000", "\U0001F600", " ", "é", " ", "\n",
                "null", "0", "_data", "filename"]
SPECIAL_FLOATS = [-0.0, 0.0, 1.0, -1.5, 1e308, 5e-324, 0.1, 1e-7, 123456789.125]
BIG_INTS = [2**63, -(2**63) - 1, 2**64, 2**70 + 1, -(2**80), 10**30, 2**1024, -(2**1024) - 1, 10**400,
            -(10**1000), 2**1023, 3 * 10**308]


class Dom:
    """Value domain of a class family (what it must accept)."""

    def __init__(self, ci):
        self.attr = ci.attr
        self.mongo = ci.backend == "mongo"

    def keys_small(self):
        ks = [k for k in SMALL_KEYS if not (self.attr and "." in k)]
        return st.sampled_from(ks)

    def _text(self):
        # lone surrogates are legal Python strings and JSON-escapable (\\udXXX); only BSON (UTF-8)
        # cannot carry them
        if self.mongo:
            alpha = st.characters(exclude_categories=["Cs"])
            special = SPECIAL_TEXT
        else:
            alpha = st.characters()
            special = SPECIAL_TEXT + ["\ud800", "a\udfffb", "\udc00\ud800"]
        t = st.one_of(st.sampled_from(special), st.text(alphabet=alpha, max_size=6))
        return t

    def keys(self):
        t = self._text()
        if self.attr:
            t = t.map(lambda s: s.replace(".", "_"))
        if self.mongo:
            t = t.map(lambda s: s.replace("\x00", "0"))
        return st.one_of(self.keys_small(), self.keys_small(), self.keys_small(), t)

    def ints(self):
        if self.mongo:
            return st.one_of(st.integers(-3, 3), st.integers(-(2**63), 2**63 - 1))
        return st.one_of(st.integers(-3, 3), st.integers(-3, 3), st.sampled_from(BIG_INTS),
                         st.integers(-(2**80), 2**80))

    def scalars(self):
        return st.one_of(
            st.none(), st.booleans(), self.ints(),
            st.one_of(st.sampled_from(SPECIAL_FLOATS),
                      st.floats(allow_nan=False, allow_infinity=False)),
            self._text(),
        )

    def values(self, max_leaves=6):
        return st.recursive(
            self.scalars(),
            lambda ch: st.one_of(
                st.lists(ch, max_size=3),
                st.dictionaries(self.keys(), ch, max_size=3),
            ),
            max_leaves=max_leaves,
        )

    def containers(self, max_leaves=6):
        v = self.values(max_leaves)
        return st.one_of(st.lists(v, max_size=3), st.dictionaries(self.keys(), v, max_size=3))

    def dicts(self, max_leaves=6, max_size=3):
        return st.dictionaries(self.keys(), self.values(max_leaves), max_size=max_size)

    def lists(self, max_leaves=6, max_size=3):
        return st.lists(self.values(max_leaves), max_size=max_size)

    def doc(self, kind, max_leaves=10):
        """A root document biased to contain nested containers."""
        nested = st.one_of(self.containers(4), self.containers(4), self.values(4))
        if kind == "dict":
            return st.dictionaries(self.keys_small(), nested, max_size=4)
        return st.lists(nested, max_size=4)


def tupled(draw, v, p=0.3):
    """Randomly re-wrap lists as tuples / small-int lists as bytes (stored as lists, C03)."""
    if isinstance(v, list):
        items = [tupled(draw, x, p) for x in v]
        c = draw(st.integers(0, 9))
        if c < 10 * p:
            if c == 0 and items and all(type(x) is int and 0 <= x < 256 for x in items):
                return bytes(items)
            return tuple(items)
        return items
    if isinstance(v, dict):
        return {k: tupled(draw, x, p) for k, x in v.items()}
    return v


# --------------------------------------------------------------------------- op drawing


def pick_handle(draw, world, prefer_deep=True, among=None):
    idx = among if among is not None else world.attached_handles()
    if not idx:
        return None
    if prefer_deep and draw(st.integers(0, 2)) == 0:
        m = max(len(world.handles[i].path) for i in idx)
        deep = [i for i in idx if len(world.handles[i].path) == m]
        return draw(st.sampled_from(deep))
    return draw(st.sampled_from(idx))


def draw_key(draw, dom, cont, p_existing=7):
    ks = list(cont.keys())
    if ks and draw(st.integers(0, 9)) < p_existing:
        return draw(st.sampled_from(ks))
    return draw(dom.keys())


def draw_index(draw, n, p_valid=8):
    if n and draw(st.integers(0, 9)) < p_valid:
        return draw(st.integers(-n, n - 1))
    return draw(st.sampled_from([n, n + 1, -n - 1, -n - 2, 0, -1, 5]))


def draw_slice(draw, n):
    b = st.one_of(st.none(), st.integers(-n - 2, n + 2))
    step = draw(st.sampled_from([None, None, None, 1, 2, -1, -2, 3]))
    return Slice(draw(b), draw(b), step)


def draw_take(draw, world, hi=None):
    """A 'take' step on a random container child of an attached handle, or None."""
    cands = []
    for i in world.attached_handles():
        h = world.handles[i]
        cont = world.model_at(h)
        items = cont.items() if h.kind == "dict" else enumerate(cont)
        for k, v in items:
            if kind_of(v) in ("dict", "list"):
                cands.append((i, k, h.kind))
    if not cands:
        return None
    i, k, kind = draw(st.sampled_from(cands))
    if kind == "dict":
        via = draw(st.sampled_from(["getitem", "getitem", "get", "setdefault"]))
    else:
        via = draw(st.sampled_from(["getitem", "getitem", "iter"]))
        n = len(world.model_at(world.handles[i]))
        if draw(st.booleans()):
            k = k - n
    return {"t": "take", "h": i, "k": enc(k), "via": via, "id": world.next_id()}


def _stored_value(draw, dom, tuples):
    if tuples and draw(st.integers(0, 11)) == 0:
        # binary strings are legal values (documented: stored as lists of ints), also nested
        b = bytes(draw(st.lists(st.integers(0, 255), max_size=3)))
        return draw(st.sampled_from([b, [b], {"b": b}, (b, 1)]))
    v = draw(dom.values())
    if tuples:
        v = tupled(draw, v)
    return v


def draw_mutator(draw, world, hi, dom, methods=None, p_raise=1, tuples=False, refs=False, p_inv=0):
    """Draw one mutator op step for handle ``hi`` (mostly succeeding; ~p_raise/10 raising)."""
    h = world.handles[hi]
    cont = world.model_at(h)
    ms = methods or ops.MUTATORS[h.kind]
    m = draw(st.sampled_from(ms))
    if p_inv and draw(st.integers(0, 99)) < p_inv:
        # a call whose ONLY payload is forbidden data (a mapping with a non-str key): must be
        # rejected by every family and change nothing
        inv = {"$inv": "intkey"}
        if h.kind == "dict":
            m2 = draw(st.sampled_from(["setitem", "update", "reset", "setdefault"]))
            a = {"setitem": ["zz", inv], "update": [{"zz": inv}], "reset": [{"zz": inv}],
                 "setdefault": ["zz_new", inv]}[m2]
        else:
            m2 = draw(st.sampled_from(["append", "insert", "extend", "reset", "iadd"]))
            a = {"append": [inv], "insert": [0, inv], "extend": [[inv]], "reset": [[inv]], "iadd": [[inv]]}[m2]
        if methods is None or m2 in methods:
            return {"t": "op", "h": hi, "m": m2, "a": a}
    want_raise = draw(st.integers(0, 9)) < p_raise
    a, kw = [], {}
    val = lambda: _stored_value(draw, dom, tuples)  # noqa: E731
    if refs and world.attached_handles() and draw(st.integers(0, 4)) == 0:
        rh = draw(st.sampled_from(world.attached_handles()))
        val = lambda: Ref(rh)  # noqa: E731
    if h.kind == "dict":
        if m == "setitem":
            a = [draw_key(draw, dom, cont, 5), val()]
        elif m == "delitem":
            a = [draw_key(draw, dom, cont, 3 if want_raise else 10)]
        elif m == "pop":
            a = [draw_key(draw, dom, cont, 4 if want_raise else 9)]
            if draw(st.booleans()):
                a.append(draw(dom.scalars()))
        elif m == "update":
            form = draw(st.sampled_from(["map", "pairs", "kw", "both", "none"]))
            d = draw(dom.dicts(4))
            if tuples:
                d = {k: tupled(draw, v) for k, v in d.items()}
            ident = {k: v for k, v in d.items() if k.isidentifier()}
            if form == "map":
                a = [d]
            elif form == "pairs":
                a = [[[k, v] for k, v in d.items()]]
            elif form == "kw":
                kw = ident
            elif form == "both":
                a = [d]
                kw = {k: draw(dom.scalars()) for k in draw(st.lists(st.sampled_from(["a", "b", "z"]),
                                                                 max_size=2, unique=True))}
        elif m == "setdefault":
            a = [draw_key(draw, dom, cont, 5)]
            if draw(st.booleans()):
                a.append(val())
        elif m == "reset":
            if want_raise:
                a = [draw(st.sampled_from([[1], 5, "ab", None]))]
            else:
                d = draw(dom.dicts(4))
                a = [tupled(draw, d) if tuples else d]
    else:
        n = len(cont)
        if m == "setitem":
            if draw(st.integers(0, 3)) == 0:
                sl = draw_slice(draw, n)
                seq = draw(dom.lists(3, max_size=3))
                a = [sl, tupled(draw, seq) if tuples else seq]
            else:
                a = [draw_index(draw, n, 3 if want_raise else 10), val()]
        elif m == "delitem":
            if draw(st.integers(0, 3)) == 0:
                a = [draw_slice(draw, n)]
            else:
                a = [draw_index(draw, n, 3 if want_raise else 10)]
        elif m == "insert":
            a = [draw(st.integers(-n - 2, n + 2)), val()]
        elif m == "append":
            a = [val()]
        elif m in ("extend", "iadd"):
            if want_raise and draw(st.booleans()):
                a = [draw(st.sampled_from([5, None]))]
            else:
                seq = draw(dom.lists(3, max_size=3))
                a = [tupled(draw, seq) if tuples else seq]
        elif m == "remove":
            if cont and not want_raise:
                a = [draw(st.sampled_from(cont))]
            else:
                a = [draw(dom.values(3))]
        elif m == "pop":
            if draw(st.booleans()):
                a = [draw_index(draw, n, 3 if want_raise else 10)]
        elif m == "reset":
            if want_raise:
                a = [draw(st.sampled_from([{"a": 1}, 5, "ab", None]))]
            else:
                seq = draw(dom.lists(4, max_size=4))
                a = [tupled(draw, seq) if tuples else seq]
    s = {"t": "op", "h": hi, "m": m, "a": enc(a)}
    if kw:
        s["kw"] = enc(kw)
    return s


def draw_read(draw, world, hi, dom, methods=None, refs=True):
    h = world.handles[hi]
    cont = world.model_at(h)
    ms = methods or ops.READS[h.kind]
    m = draw(st.sampled_from(ms))
    a = []
    if h.kind == "dict":
        if m in ("getitem", "contains"):
            a = [draw_key(draw, dom, cont, 7)]
            if draw(st.integers(0, 19)) == 0:
                a = [draw(st.sampled_from([[1], {"a": 1}, 1, None]))]
        elif m == "get":
            a = [draw_key(draw, dom, cont, 6)]
            if draw(st.booleans()):
                a.append(draw(dom.scalars()))
        elif m in ("eq", "ne"):
            a = [_operand(draw, world, hi, dom, cont, refs)]
    else:
        n = len(cont)
        if m == "getitem":
            a = [draw_slice(draw, n) if draw(st.integers(0, 3)) == 0 else draw_index(draw, n, 7)]
        elif m in ("contains", "index", "count"):
            if cont and draw(st.integers(0, 9)) < 7:
                a = [draw(st.sampled_from(cont))]
            else:
                a = [draw(dom.values(3))]
            if m == "index" and draw(st.integers(0, 2)) == 0:
                a.append(draw(st.integers(-n - 1, n + 1)))
                if draw(st.booleans()):
                    a.append(draw(st.integers(-n - 1, n + 1)))
        elif m in ("eq", "ne", "lt", "le", "gt", "ge"):
            a = [_operand(draw, world, hi, dom, cont, refs)]
    return {"t": "op", "h": hi, "m": m, "a": enc(a)}


def _operand(draw, world, hi, dom, cont, refs):
    c = draw(st.integers(0, 9))
    if c < 3:
        import copy
        return copy.deepcopy(cont)  # equal plain operand
    if c < 5 and isinstance(cont, list):
        # a near miss: same prefix, one element changed / dropped / added
        import copy
        o = copy.deepcopy(cont)
        k = draw(st.integers(0, 2))
        if k == 0 and o:
            o.pop()
        elif k == 1:
            o.append(draw(dom.scalars()))
        elif o:
            o[draw(st.integers(0, len(o) - 1))] = draw(dom.scalars())
        return o
    if c < 7 and refs:
        others = [i for i in world.attached_handles()]
        foreign = [i for i in others if world.handles[i].res != world.handles[hi].res
                   and world.handles[i].kind == world.handles[hi].kind]
        if foreign and draw(st.integers(0, 3)) != 0:
            return Ref(draw(st.sampled_from(foreign)))
        if others:
            return Ref(draw(st.sampled_from(others)))
    if c == 7:
        return draw(st.sampled_from([5, "a", None, (1, 2), {"a": 1}, [], {}]))
    return draw(dom.containers(4))
