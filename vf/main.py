"""Entry point: ./check <Cxx> [--tier quick|thorough] [--replay path] [--shards n] [--nproc n]"""
import argparse
import importlib
import json
import os
import sys
import warnings

warnings.simplefilter("ignore")


def main():
    ap = argparse.ArgumentParser()
    ap.add_argument("prop")
    ap.add_argument("--tier", default=None)
    ap.add_argument("--replay", default=None)
    ap.add_argument("--shards", type=int, default=None)
    ap.add_argument("--nproc", type=int, default=None)
    a = ap.parse_args()
    from . import env, runner
    tier = a.tier or env.tier()
    try:
        mod = importlib.import_module("vf.props." + a.prop.lower())
    except ImportError as e:
        print(f"HARNESS-ERROR: cannot import check for {a.prop}: {e}", file=sys.stderr)
        import traceback
        traceback.print_exc()
        return 2
    if a.replay:
        with open(a.replay) as f:
            case = json.load(f)
        d = runner.replay_shard(case) if case.get("engine") == "shard" else mod.replay(case)
        if d is None:
            print(f"replay {a.replay}: property held (no violation reproduced)")
            return 0
        rel = os.path.relpath(os.path.abspath(a.replay), env.VERIF)
        print(f"VIOLATION property={mod.ID} replay={rel}")
        print("  " + json.dumps(d, default=repr)[:1500])
        return 1
    try:
        return runner.run_property(mod, tier, env.seed(), nproc=a.nproc, only_shards=a.shards)
    except runner.HarnessError as e:
        print(f"HARNESS-ERROR: {e}", file=sys.stderr)
        return 2


if __name__ == "__main__":
    try:
        rc = main()
    except SystemExit:
        raise
    except BaseException:  # noqa: BLE001
        import traceback
        traceback.print_exc()
        rc = 2
    sys.stdout.flush()
    sys.exit(rc)
