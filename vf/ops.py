"""One operation applied to the real object and to a built-in dict/list model.

The model side *is* the built-in container method, with the documented
deviations of synced collections encoded once (see DESIGN.md 2.4).
"""
import copy
from collections.abc import Mapping, Sequence

from .plain import Inv, Ref, Slice, norm, ordered_eq, plain, canon, type_exact_eq

DICT_MUT = ["setitem", "delitem", "pop", "popitem", "clear", "update", "setdefault", "reset"]
DICT_READ = ["getitem", "get", "len", "iter", "contains", "keys", "values", "items", "call",
             "eq", "ne", "bool"]
LIST_MUT = ["setitem", "delitem", "insert", "append", "extend", "iadd", "remove", "pop",
            "reverse", "clear", "reset"]
LIST_READ = ["getitem", "len", "iter", "reversed", "contains", "index", "count", "call",
             "eq", "ne", "lt", "le", "gt", "ge", "bool"]
EXTRA_READ = ["repr", "str"]  # used by C17 only (no model comparison)

MUTATORS = {"dict": DICT_MUT, "list": LIST_MUT}
READS = {"dict": DICT_READ, "list": LIST_READ}

UNORDERED = {"iter", "keys", "values", "items"}  # dict results compared as multisets


ARITY = {
    "dict": {"setitem": (2, 2), "delitem": (1, 1), "pop": (1, 2), "popitem": (0, 0), "clear": (0, 0),
             "update": (0, 1), "setdefault": (1, 2), "reset": (1, 1), "getitem": (1, 1),
             "get": (1, 2), "contains": (1, 1), "eq": (1, 1), "ne": (1, 1)},
    "list": {"setitem": (2, 2), "delitem": (1, 1), "insert": (2, 2), "append": (1, 1),
             "extend": (1, 1), "iadd": (1, 1), "remove": (1, 1), "pop": (0, 1), "reverse": (0, 0),
             "clear": (0, 0), "reset": (1, 1), "getitem": (1, 1), "contains": (1, 1),
             "index": (1, 3), "count": (1, 1), "eq": (1, 1), "ne": (1, 1), "lt": (1, 1),
             "le": (1, 1), "gt": (1, 1), "ge": (1, 1)},
}


def arity_ok(kind, m, a):
    lo, hi = ARITY[kind].get(m, (0, 0))
    return lo <= len(a) <= hi


def is_mutator(kind, m):
    return m in MUTATORS[kind]


def exc_family(e):
    for base in (KeyError, IndexError, ValueError, TypeError, AttributeError):
        if isinstance(e, base):
            return base.__name__
    return type(e).__name__


def _has_inv(x):
    if isinstance(x, Inv):
        return True
    if isinstance(x, list):
        return any(_has_inv(v) for v in x)
    if isinstance(x, dict):
        return any(_has_inv(v) for v in x.values())
    return False


class Outcome:
    __slots__ = ("ok", "value", "family", "detail")

    def __init__(self, ok, value=None, family=None, detail=None):
        self.ok, self.value, self.family, self.detail = ok, value, family, detail

    def brief(self):
        if self.ok:
            return ["ok", self.value]
        return ["raise", self.family, self.detail]

    def __repr__(self):
        return repr(self.brief())


class _Unserializable:
    pass


INVALID = {"object": object, "set": lambda: {1, 2}, "complex": lambda: 1j, "instance": _Unserializable,
           "intkey": lambda: {1: 2}, "dotkey": lambda: {"a.b": 1}}


def _deep_inv(x):
    if isinstance(x, Inv):
        return INVALID[x.name]()
    if isinstance(x, list):
        return [_deep_inv(v) for v in x]
    if isinstance(x, dict):
        return {k: _deep_inv(v) for k, v in x.items()}
    return x


def _real_arg(x, resolve_real):
    if isinstance(x, Slice):
        return x.s()
    if isinstance(x, Inv):
        return INVALID[x.name]()
    if isinstance(x, (list, dict)):
        return _deep_inv(copy.deepcopy(x)) if _has_inv(x) else copy.deepcopy(x)
    if isinstance(x, Ref):
        return resolve_real(x.h)
    return copy.deepcopy(x)


def real_apply(t, kind, m, a, kw, resolve_real=None):
    """Call method ``m`` on the library object ``t``; results are converted to plain data."""
    try:
        a = [_real_arg(x, resolve_real) for x in a]
        kw = {k: _real_arg(v, resolve_real) for k, v in (kw or {}).items()}
        if m == "setitem":
            t[a[0]] = a[1]
            r = None
        elif m == "delitem":
            del t[a[0]]
            r = None
        elif m == "iadd":
            t2 = t
            t2 += a[0]
            r = "<self>" if t2 is t else "<other object>"
        elif m == "getitem":
            r = t[a[0]]
        elif m == "len":
            r = len(t)
        elif m == "iter":
            r = list(iter(t))
        elif m == "reversed":
            r = list(reversed(t))
        elif m == "contains":
            r = a[0] in t
        elif m == "keys":
            r = list(t.keys())
        elif m == "values":
            r = list(t.values())
        elif m == "items":
            r = [list(i) for i in t.items()]
        elif m == "call":
            r = t()
        elif m == "eq":
            r = t == a[0]
        elif m == "ne":
            r = t != a[0]
        elif m == "lt":
            r = t < a[0]
        elif m == "le":
            r = t <= a[0]
        elif m == "gt":
            r = t > a[0]
        elif m == "ge":
            r = t >= a[0]
        elif m == "bool":
            r = bool(t)
        elif m == "repr":
            r = repr(t)
        elif m == "str":
            r = str(t)
        elif m == "popitem":
            r = list(t.popitem())
        else:
            r = getattr(t, m)(*a, **kw)
        return Outcome(True, plain(r))
    except RecursionError:
        raise
    except Exception as e:  # noqa: BLE001 - the outcome *is* the exception class
        return Outcome(False, family=exc_family(e), detail=f"{type(e).__name__}: {str(e)[:120]}")


def _model_arg(x, resolve_model):
    if isinstance(x, Slice):
        return x.s()
    if isinstance(x, Ref):
        return copy.deepcopy(resolve_model(x.h))
    return copy.deepcopy(x)


def _is_seq(x):
    return isinstance(x, Sequence) and not isinstance(x, str)


def model_apply(c, kind, m, a, kw, resolve_model=None, real_out=None):
    """Apply ``m`` to the built-in container ``c`` (mutating it); documented deviations included."""
    try:
        a = [_model_arg(x, resolve_model) for x in a]
        kw = {k: _model_arg(v, resolve_model) for k, v in (kw or {}).items()}
        r = _model(c, kind, m, a, kw, real_out)
        return Outcome(True, copy.deepcopy(r))
    except Exception as e:  # noqa: BLE001
        return Outcome(False, family=exc_family(e), detail=f"{type(e).__name__}: {str(e)[:120]}")


class _PopitemMismatch(Exception):
    pass


def _model(c, kind, m, a, kw, real_out):
    # ---- shared reads
    if m == "len":
        return len(c)
    if m == "call":
        return c
    if m == "bool":
        return bool(c)
    if m == "getitem":
        return c[a[0]]
    if m == "iter":
        return list(iter(c))
    if m == "contains":
        return a[0] in c
    if m == "eq":
        return c == a[0]
    if m == "ne":
        return c != a[0]
    if m == "clear":
        c.clear()
        return None
    if m == "delitem":
        del c[a[0]]
        return None
    if kind == "dict":
        if m == "setitem":
            c[a[0]] = norm(a[1])
            return None
        if m == "pop":
            return c.pop(a[0], a[1] if len(a) > 1 else None)  # deviation: default None
        if m == "popitem":
            if not c:
                raise KeyError("popitem(): dictionary is empty")
            if real_out is not None and real_out.ok:
                k = real_out.value[0]
                if isinstance(k, str) and k in c:
                    return [k, c.pop(k)]
                return ["<a key of the model>", None]
            k = next(reversed(c))
            return [k, c.pop(k)]
        if m == "update":
            other = a[0] if a else None
            if other is not None:
                other = dict(other)  # pairs or mapping; raises like dict.update would
            else:
                other = {}
            new = {**other, **kw}
            for k in new:
                hash(k)
            c.update(norm(new))
            return None
        if m == "setdefault":
            k = a[0]
            if k in c:
                return c[k]
            c[k] = norm(a[1] if len(a) > 1 else None)
            return c[k]
        if m == "reset":
            if not isinstance(a[0], Mapping):
                raise ValueError("reset: not a mapping")
            new = norm(dict(a[0]))
            c.clear()
            c.update(new)
            return None
        if m == "get":
            return c.get(*a)
        if m == "keys":
            return list(c.keys())
        if m == "values":
            return list(c.values())
        if m == "items":
            return [list(i) for i in c.items()]
    else:
        if m == "setitem":
            c[a[0]] = norm(a[1])
            return None
        if m == "insert":
            c.insert(a[0], norm(a[1]))
            return None
        if m == "append":
            c.append(norm(a[0]))
            return None
        if m == "extend":
            c.extend(norm(list(a[0])))
            return None
        if m == "iadd":
            c.extend(norm(list(a[0])))
            return "<self>"
        if m == "remove":
            c.remove(a[0])
            return None
        if m == "pop":
            return c.pop(*a)
        if m == "reverse":
            c.reverse()
            return None
        if m == "reset":
            if not _is_seq(a[0]):
                raise ValueError("reset: not a non-string sequence")
            c[:] = norm(list(a[0]))
            return None
        if m == "reversed":
            return list(reversed(c))
        if m == "index":
            return c.index(*a)
        if m == "count":
            return c.count(a[0])
        if m == "lt":
            return c < a[0]
        if m == "le":
            return c <= a[0]
        if m == "gt":
            return c > a[0]
        if m == "ge":
            return c >= a[0]
    raise NotImplementedError((kind, m))


def _multiset_eq(a, b):
    """Multiset equality under Python ``==`` (an equivalence on plain JSON data)."""
    if len(a) != len(b):
        return False
    rest = list(b)
    for x in a:
        for i, y in enumerate(rest):
            if x == y:
                del rest[i]
                break
        else:
            return False
    return True


def same_outcome(kind, m, real, model, ordered=False, exact=False):
    """True iff the two outcomes agree. Dict iteration order is compared only when ``ordered`` (the
    caller guarantees a history in which the built-in dict's order is the specified one)."""
    if real.ok != model.ok:
        return False
    if not real.ok:
        return real.family == model.family
    if ordered:
        return real.value == model.value and ordered_eq(real.value, model.value)
    if exact and m in ("getitem", "get", "call", "values", "pop"):
        # JSON leaf types must match too (true is not 1, 1 is not 1.0)
        if kind == "dict" and m == "values":
            return _multiset_eq(real.value, model.value) and \
                sorted(map(repr, map(canon, real.value))) == sorted(map(repr, map(canon, model.value)))
        return real.value == model.value and type_exact_eq(real.value, model.value)
    if kind == "dict" and m in UNORDERED:
        if not isinstance(real.value, list):
            return False
        return _multiset_eq(real.value, model.value)
    return real.value == model.value
