"""Plain-data helpers: conversion of results, structural checks, replay encoding."""
import hashlib
import json

from synced_collections import SyncedCollection

SCALARS = (str, int, float, bool, type(None))


def plain(x):
    """Convert a result of a library call to plain data *now* (at return time)."""
    if isinstance(x, SyncedCollection):
        return x._to_base()
    if isinstance(x, (list, tuple)):
        return [plain(v) for v in x]
    if isinstance(x, dict):
        return {k: plain(v) for k, v in x.items()}
    return x


def is_plain(x):
    """Built only from dict/list/str/int/float/bool/None, dict keys str (exact built-in types)."""
    t = type(x)
    if t in (str, int, float, bool, type(None)):
        return True
    if t is list:
        return all(is_plain(v) for v in x)
    if t is dict:
        return all(type(k) is str and is_plain(v) for k, v in x.items())
    return False


def kind_of(x):
    if isinstance(x, dict):
        return "dict"
    if isinstance(x, (list, tuple)):
        return "list"
    if x is None:
        return "null"
    return "scalar"


def type_exact_eq(a, b):
    """Equality that also demands the same JSON type (bool/int/float/str/null) at every leaf."""
    if type(a) is not type(b):
        return False
    if type(a) is dict:
        return a.keys() == b.keys() and all(type_exact_eq(a[k], b[k]) for k in a)
    if type(a) is list:
        return len(a) == len(b) and all(type_exact_eq(x, y) for x, y in zip(a, b))
    return a == b


def ordered_eq(a, b):
    """``==`` on plain data that also compares the key order of dicts, at every depth."""
    if isinstance(a, dict) and isinstance(b, dict):
        return list(a) == list(b) and all(ordered_eq(a[k], b[k]) for k in a)
    if isinstance(a, (list, tuple)) and isinstance(b, (list, tuple)):
        return len(a) == len(b) and all(ordered_eq(x, y) for x, y in zip(a, b))
    return a == b


def depth(x):
    if isinstance(x, dict):
        return 1 + max((depth(v) for v in x.values()), default=0)
    if isinstance(x, (list, tuple)):
        return 1 + max((depth(v) for v in x), default=0)
    return 0


def norm(x):
    """Documented deviation: tuples and bytes are stored as lists."""
    if isinstance(x, dict):
        return {k: norm(v) for k, v in x.items()}
    if isinstance(x, (list, tuple)):
        return [norm(v) for v in x]
    if isinstance(x, (bytes, bytearray)):
        return list(x)
    return x


# ----------------------------------------------------------------- replay encoding


class Slice:
    """A slice that is hashable/JSON-able (replay files)."""

    def __init__(self, a, b, c):
        self.t = (a, b, c)

    def s(self):
        return slice(*self.t)

    def __repr__(self):
        return "Slice%r" % (self.t,)


class Ref:
    """Reference to a handle of the world (operand of comparisons, cross assignment)."""

    def __init__(self, h):
        self.h = h

    def __repr__(self):
        return f"Ref({self.h})"


class Inv:
    """A named item from the invalid-data pool (C11)."""

    def __init__(self, name):
        self.name = name

    def __repr__(self):
        return f"Inv({self.name})"


def enc(x):
    if isinstance(x, dict):
        if any((not isinstance(k, str)) or k.startswith("$") for k in x):
            return {"$d": [[enc(k), enc(v)] for k, v in x.items()]}
        return {k: enc(v) for k, v in x.items()}
    if isinstance(x, list):
        return [enc(v) for v in x]
    if isinstance(x, tuple):
        return {"$t": [enc(v) for v in x]}
    if isinstance(x, (bytes, bytearray)):
        return {"$b": list(x)}
    if isinstance(x, Slice):
        return {"$s": list(x.t)}
    if isinstance(x, Ref):
        return {"$h": x.h}
    if isinstance(x, Inv):
        return {"$inv": x.name}
    if isinstance(x, float) and (x != x or x in (float("inf"), float("-inf"))):
        return {"$f": repr(x)}
    if x is None or isinstance(x, (str, int, float, bool)):
        return x
    return {"$repr": repr(x)}


def dec(x):
    if isinstance(x, list):
        return [dec(v) for v in x]
    if isinstance(x, dict):
        if len(x) == 1:
            (k, v), = x.items()
            if k == "$d":
                return {dec(a): dec(b) for a, b in v}
            if k == "$t":
                return tuple(dec(i) for i in v)
            if k == "$b":
                return bytes(v)
            if k == "$s":
                return Slice(*v)
            if k == "$h":
                return Ref(v)
            if k == "$inv":
                return Inv(v)
            if k == "$f":
                return float(v)
        return {k: dec(v) for k, v in x.items()}
    return x


def canon(x):
    return json.dumps(enc(x), sort_keys=True, default=repr)


def h64(*parts):
    m = hashlib.blake2b(digest_size=8)
    for p in parts:
        m.update(canon(p).encode() if not isinstance(p, (bytes, str)) else (p if isinstance(p, bytes) else p.encode()))
        m.update(b"\0")
    return int.from_bytes(m.digest(), "big")
