"""C01 write-through: after every mutator returns, the resource (read independently) is the model."""
import os

from hypothesis import strategies as st

from .. import gen, ops, wm
from ..classes import ABSENT, ALL, CLASSES
from ..plain import h64
from ..runner import Acc, hyp_search
from ..world import Mismatch

ID = "C01"
LEVEL = "exploration"
RULE = ("Hypothesis-generated programs: one root object of each of the 18 classes on an absent or "
        "pre-populated resource; steps = take a child handle (getitem/get/setdefault/iter) or apply "
        "any public mutator (arguments from the JSON value strategy, ~10% calls that must raise) at "
        "a root or retained nested handle of any depth; after every mutator the resource is read "
        "independently and compared with a plain dict/list model. Non-trivial = the program contains "
        "a successful mutator issued through a nested handle (depth>=1) after an earlier mutator; "
        "distinct = distinct (class, initial document, step list).")
ASSUMPTIONS = [
    "Redis/MongoDB/Zarr are exercised against call-compatible fakes (no servers offline)",
    "MongoDB value domain excludes ints beyond 64 bits and NUL in keys (BSON limits, documented by the repo)",
    "dict key order is never compared; values compared with Python == on plain data",
]


def shards(tier):
    reps = 1 if tier == "quick" else 6
    return [{"cls": c.name, "rep": r} for c in ALL for r in range(reps)]


def _post(w):
    # JSON only: no stray temp file may remain next to the target
    if w.ci.backend == "json":
        names = set(os.listdir(w.dir))
        allowed = {os.path.basename(r.path) for r in w.res}
        stray = sorted(names - allowed)
        if stray:
            raise Mismatch("stray_files", files=stray)


def _gen_step(dom):
    def g(draw, w):
        if not w.handles:
            return {"t": "new", "r": 0, "id": w.next_id()}
        c = draw(st.integers(0, 9))
        if c < 3:
            s = gen.draw_take(draw, w)
            if s is not None:
                return s
        hi = gen.pick_handle(draw, w)
        if hi is None:
            return None
        return gen.draw_mutator(draw, w, hi, dom, p_raise=1, tuples=True)
    return g


def _nt(w):
    seen_mut = False
    for s in w.log:
        if s["t"] == "op":
            h = w.handles[s["h"]]
            if seen_mut and len(h.path) >= 1:
                return True
            seen_mut = True
    return False


def run_shard(spec, seed, tier, active):
    ci = CLASSES[spec["cls"]]
    dom = gen.Dom(ci)
    acc = Acc()
    n = 60 if tier == "quick" else 400
    max_steps = 30 if tier == "quick" else 50

    def one(data):
        draw = data.draw
        init = draw(st.one_of(st.just(ABSENT), dom.doc(ci.kind)))
        w = wm.run_generated(ID, ci, [init], _gen_step(dom), draw, max_steps, post=_post)
        nt = _nt(w)
        sample = {"class": ci.name, "initial": repr(init), "steps": w.log[:12]} if nt else None
        cnt = {f"{ci.name}": 1}
        for (k, v) in w.events.items():
            if isinstance(k, tuple):
                cnt[f"{k[1]}.{k[2]}"] = v
        depth = max((len(h.path) for h in w.handles), default=0)
        cnt[f"max_handle_depth={min(depth, 4)}"] = 1
        acc.case([h64(ci.name, repr(init), w.log)] if nt else (), sample, cnt)

    fail = hyp_search(one, n, seed)
    if fail is not None:
        acc.failures.append(wm.minimize_world(fail, post=_post))
    return acc.result()


def replay(case):
    return wm.replay_world(case, post=_post)
