"""C01 write-through: after every mutator returns, the resource (read independently) is the model."""
import copy
import os

from hypothesis import strategies as st

from .. import gen, ops, wm
from ..classes import ABSENT, ALL, CLASSES
from ..plain import h64
from ..runner import Acc, hyp_search
from ..world import Mismatch

ID = "C01"
LEVEL = "exploration"
RULE = ("Hypothesis-generated programs: one root object of each of the 18 classes on an absent or "
        "pre-populated resource, for JSON classes under all four write configurations (write_concern "
        "on/off x threading support on/off); steps = take a child handle (getitem/get/setdefault/iter) or apply "
        "any public mutator (arguments from the JSON value strategy, ~10% calls that must raise) at "
        "a root or retained nested handle of any depth; after every mutator the resource is read "
        "independently and compared with a plain dict/list model. Non-trivial = the program contains "
        "a successful mutator issued through a nested handle (depth>=1) after an earlier mutator; "
        "distinct = distinct (class, initial document, step list). Second part (complete product): "
        "every mutator at root/nested targets with the k-th file-system call of its save failing "
        "with OSError, for every k (JSON classes), or the store's write call failing (fakes): a call "
        "that RETURNS normally must still have put the new content into the resource, and after a "
        "call that RAISED the next read equals the backend and the next mutation is written through. One step in "
        "twenty of the first part starts a script: a mutation, an outside writer's rewrite of the "
        "resource, the same mutation again. Third part (buffered classes): unbuffered mutations "
        "between buffered sessions (per-object / backend-wide contexts, capacities), a fifth of whose "
        "exits hit an injected I/O error: once no context is open, every mutation must again be in "
        "the backend when it returns.")
ASSUMPTIONS = [
    "Redis/MongoDB/Zarr are exercised against call-compatible fakes (no servers offline)",
    "MongoDB value domain excludes ints beyond 64 bits and NUL in keys (BSON limits, documented by the repo)",
    "dict key order is never compared; values compared with Python == on plain data",
]


def shards(tier):
    reps = 1 if tier == "quick" else 6
    return [{"cls": c.name, "rep": r} for c in ALL for r in range(reps)] + \
           [{"cls": c.name, "mode": "faults"} for c in ALL] + \
           [{"cls": c.name, "mode": "sessions", "rep": r} for c in ALL if c.buffered for r in range(reps)]


# ---- write faults: a mutator that RETURNS must have written, whatever failed underneath

F_DICT = [("setitem", ["k", [1]]), ("delitem", ["a"]), ("pop", ["a"]), ("popitem", []), ("clear", []),
          ("update", [{"k": 1}]), ("setdefault", ["k", 2]), ("reset", [{"k": 1}])]
F_LIST = [("setitem", [0, "v"]), ("delitem", [0]), ("insert", [0, 1]), ("append", [[1]]),
          ("extend", [[1, 2]]), ("iadd", [[1]]), ("remove", [1]), ("pop", []), ("reverse", []),
          ("clear", []), ("reset", [[3]])]


def run_faults(ci, acc):
    """Every mutator x every file-system call of its save failing (JSON) / the store failing (fakes)."""
    import copy
    import errno
    import shutil
    from .. import sched
    from ..classes import new_resource, reset_class_state
    from ..world import get_path
    sched.install_faults()
    kind = ci.kind
    inner = {"a": 1, "b": [1, 2], "n": {"a": 1, "l": [1, 2]}}
    doc = dict(inner) if kind == "dict" else [1, {"a": 1, "l": [1, 2], "n": {"a": 1}}, 2]
    targets = [((), kind)]
    targets += [(("n",), "dict"), (("b",), "list")] if kind == "dict" else [((1,), "dict"), ((1, "l"), "list")]
    errs = [errno.EIO, errno.ENOSPC, errno.EACCES, errno.EMFILE]
    for path, tk in targets:
        for (m, a) in (F_DICT if tk == "dict" else F_LIST):
            k = 0
            while True:
                k += 1
                d = wm.case_dir()
                reset_class_state()
                try:
                    res = new_resource(ci, d)
                    res.write(copy.deepcopy(doc))
                    root = res.make(ci)
                    t = root
                    for key in path:
                        t = t[key]
                    model = copy.deepcopy(doc)
                    mt = get_path(model, path)
                    if ci.backend == "json":
                        sched.FAULTS.arm(k, errs[k % 4])
                    else:
                        if k > 1:
                            break
                        store = getattr(res, "client", None) or getattr(res, "coll", None) or getattr(res, "group", None)
                        store.fail_writes = True
                        for ds in getattr(store, "sets", {}).values():
                            ds.fail_writes = True
                    real = ops.real_apply(t, tk, m, copy.deepcopy(a), {})
                    fired = sched.FAULTS.fired if ci.backend == "json" else True
                    calls = list(sched.FAULTS.calls)
                    sched.FAULTS.disarm()
                    if ci.backend != "json":
                        store.fail_writes = False
                        for ds in getattr(store, "sets", {}).values():
                            ds.fail_writes = False
                    mo = ops.model_apply(mt, tk, m, copy.deepcopy(a), {}, real_out=real)
                    nt = fired and len(path) >= 1
                    acc.case([h64("fault", ci.name, m, path, k)] if fired else (),
                             {"class": ci.name, "op": m, "target": list(path), "failing_call": k,
                              "calls": calls, "outcome": real.brief()} if (nt and len(acc.samples) < 3) else None,
                             {"fault.executions": 1, "fault.fired": int(fired)})
                    if fired and real.ok:
                        got = res.read()
                        if got != model:
                            desc = {"what": "returned_normally_but_backend_not_updated", "op": m,
                                    "target": list(path), "failing_call": k,
                                    "call": calls[k - 1] if ci.backend == "json" and k <= len(calls) else "store write",
                                    "got": got, "expected": model}
                            if len(acc.failures) < 2:
                                acc.failures.append({"case": {"property": ID, "engine": "c01faults",
                                                              "class": ci.name, "op": m, "a": a,
                                                              "path": list(path), "k": k}, "desc": desc})
                    if fired and not real.ok:
                        # the failure was reported; it must not linger: the next read reflects the
                        # backend and the next mutation is written through
                        try:
                            F = res.read()
                        except ValueError:
                            F = None
                        if F is not None and F is not ABSENT and isinstance(F, type(doc)):
                            from ..plain import plain
                            desc = None
                            try:
                                v = plain(root())
                                if v != F:
                                    desc = {"what": "read_after_failed_call_differs_from_backend", "got": v, "expected": F}
                                exp = copy.deepcopy(F)
                                if kind == "dict":
                                    root["zz_probe"] = 1
                                    exp["zz_probe"] = 1
                                else:
                                    root.append("zz_probe")
                                    exp.append("zz_probe")
                                got = res.read()
                                if desc is None and got != exp:
                                    desc = {"what": "write_after_failed_call_not_in_backend", "got": got, "expected": exp}
                            except Exception as e:  # noqa: BLE001
                                desc = {"what": "call_after_failed_call_raised", "error": f"{type(e).__name__}: {str(e)[:160]}"}
                            acc.counters["fault.followed_by_read_and_write_probe"] += 1
                            if desc is not None and len(acc.failures) < 2:
                                desc.update({"op": m, "target": list(path), "failing_call": k})
                                acc.failures.append({"case": {"property": ID, "engine": "c01faults",
                                                              "class": ci.name, "op": m, "a": a,
                                                              "path": list(path), "k": k}, "desc": desc})
                    if not fired:
                        break
                finally:
                    sched.FAULTS.disarm()
                    reset_class_state()
                    shutil.rmtree(d, ignore_errors=True)
                if k > 40:
                    break


def _post(w):
    # JSON only: no stray temp file may remain next to the target
    if w.ci.backend == "json":
        names = set(os.listdir(w.dir))
        allowed = {os.path.basename(r.path) for r in w.res}
        stray = sorted(names - allowed)
        if stray:
            raise Mismatch("stray_files", files=stray)


def _gen_step(dom, wc=False, st8=None):
    st8 = st8 if st8 is not None else {}

    def g(draw, w):
        if not w.handles:
            s = {"t": "new", "r": 0, "id": w.next_id()}
            if wc and w.ci.backend == "json":
                s["kw"] = {"write_concern": True}
            return s
        q = st8.setdefault("queue", [])
        while q:
            s = q.pop(0)
            if s == "REWRITE":
                from .c02 import draw_rewrite
                return draw_rewrite(draw, w, dom)
            if w.usable(s["h"]):
                return copy.deepcopy(s)
        c = draw(st.integers(0, 19))
        if c == 19 and not w.poisoned:
            # the same mutation again after an OUTSIDE writer changed the resource in between: the
            # second call, too, must have reached the backend when it returns
            roots = [i for i in w.attached_handles() if not w.handles[i].path]
            hi = draw(st.sampled_from(roots)) if roots and draw(st.booleans()) else gen.pick_handle(draw, w)
            if hi is not None:
                x = gen.draw_mutator(draw, w, hi, dom, p_raise=0)
                q.extend(["REWRITE", copy.deepcopy(x)])
                st8["aba"] = st8.get("aba", 0) + 1
                return x
        c = c % 10
        if c < 3:
            s = gen.draw_take(draw, w)
            if s is not None:
                return s
        hi = gen.pick_handle(draw, w)
        if hi is None:
            return None
        return gen.draw_mutator(draw, w, hi, dom, p_raise=1, tuples=True, p_inv=3)
    return g


def _gen_step_sessions(dom):
    """Unbuffered mutations BETWEEN buffered sessions (per-object and backend-wide contexts, with
    capacities and capacity changes); a fifth of the context exits hit an injected I/O error. Once no
    context is open every mutation must be in the backend when it returns - also after an exit that
    failed (checked by the world's aftermath probes)."""
    q = []
    started = [False]

    def g(draw, w):
        roots = w.roots()
        if not roots:
            return {"t": "new", "r": 0, "id": w.next_id()}
        if q:
            s = q.pop(0)
            if s == "MUT":
                return gen.draw_mutator(draw, w, roots[0], dom, p_raise=0)
            return s
        if not started[0]:
            started[0] = True
            if draw(st.sampled_from([0, 1, 2])) == 1:
                # steered: a small permanent capacity, a session with a larger temporary one whose
                # exit (which restores the small capacity and flushes) hits an I/O error
                q.extend([{"t": "enter_cls", "h": roots[0], "cap": 10**6}, "MUT"] +
                         (["MUT"] if draw(st.booleans()) else []) +
                         [{"t": "exit", "fault_k": draw(st.integers(1, 6))}])
                return {"t": "setcap", "n": draw(st.sampled_from([0, 1, 2, 40]))}
        c = draw(st.integers(0, 19))
        # (one object: a second, unbuffered writer on a buffered file is C07's subject)
        if c < 3 and len(w.stack) < 3:
            return {"t": "enter_obj", "h": draw(st.sampled_from(roots))}
        if c < 5 and len(w.stack) < 3:
            s = {"t": "enter_cls", "h": roots[0]}
            if draw(st.booleans()):
                s["cap"] = draw(st.sampled_from([0, 1, 2, 40, 100, 10**6]))
            return s
        if c < 9 and w.stack:
            if draw(st.integers(0, 4)) == 0:
                return {"t": "exit", "fault_k": draw(st.integers(1, 6))}
            return {"t": "exit"}
        if c == 9:
            return {"t": "setcap", "n": draw(st.sampled_from([0, 1, 2, 40, 100, 10**6]))}
        if c < 12:
            s = gen.draw_take(draw, w)
            if s is not None:
                return s
        hi = gen.pick_handle(draw, w)
        if hi is None:
            return None
        return gen.draw_mutator(draw, w, hi, dom, p_raise=1)
    return g


def _nt(w):
    seen_mut = False
    for s in w.log:
        if s["t"] == "op":
            h = w.handles[s["h"]]
            if seen_mut and len(h.path) >= 1:
                return True
            seen_mut = True
    return False


def run_shard(spec, seed, tier, active):
    ci = CLASSES[spec["cls"]]
    dom = gen.Dom(ci)
    acc = Acc()
    if spec.get("mode") == "faults":
        run_faults(ci, acc)
        acc.extra["write_faults_exhaustive"] = True
        return acc.result()
    n = 60 if tier == "quick" else 400
    max_steps = 30 if tier == "quick" else 50
    if spec.get("mode") == "sessions":
        def one_s(data):
            draw = data.draw
            init = draw(st.one_of(st.just(ABSENT), dom.doc(ci.kind), dom.doc(ci.kind)))
            w = wm.run_generated(ID, ci, [init], _gen_step_sessions(dom), draw, max_steps,
                                 engine="bufworld", check_frozen=False, check_outcome=False)
            unbuf_after = 0
            seen_exit = False
            for s in w.log:
                seen_exit = seen_exit or s["t"] == "exit"
            unbuf_after = w.events.get("aftermath_write_probe", 0)
            nt = seen_exit
            cnt = {"sessions.cases": 1, "sessions.failed_exits": w.events.get("faulted_exit", 0),
                   "sessions.write_through_probes_after_failed_exit": unbuf_after,
                   "sessions.exits": w.events.get("exit_obj", 0) + w.events.get("exit_cls", 0)}
            acc.case([h64(ci.name, "sessions", w.log)] if nt else (),
                     {"class": ci.name, "part": "sessions", "steps": w.log[:12]} if nt else None, cnt)

        fail = hyp_search(one_s, n // 2, seed)
        if fail is not None:
            acc.failures.append(wm.minimize_world(fail))
        return acc.result()

    def one(data):
        draw = data.draw
        init = draw(st.one_of(st.just(ABSENT), dom.doc(ci.kind)))
        # write configurations of the JSON backend: write_concern on/off x threading support on/off
        wc = draw(st.booleans())
        threading_off = ci.backend == "json" and draw(st.integers(0, 2)) == 0
        st8 = {}
        w = wm.run_generated(ID, ci, [init], _gen_step(dom, wc, st8), draw, max_steps, post=_post,
                             threading_off=threading_off)
        nt = _nt(w)
        sample = {"class": ci.name, "initial": repr(init), "steps": w.log[:12]} if nt else None
        cnt = {f"{ci.name}": 1, f"write_concern={wc}": 1, f"threading_off={threading_off}": 1,
               "same_mutation_repeated_after_outside_rewrite": st8.get("aba", 0)}
        for (k, v) in w.events.items():
            if isinstance(k, tuple):
                cnt[f"{k[1]}.{k[2]}"] = v
        depth = max((len(h.path) for h in w.handles), default=0)
        cnt[f"max_handle_depth={min(depth, 4)}"] = 1
        acc.case([h64(ci.name, repr(init), w.log)] if nt else (), sample, cnt)

    fail = hyp_search(one, n, seed)
    if fail is not None:
        acc.failures.append(wm.minimize_world(fail, post=_post))
    return acc.result()


def replay(case):
    if case.get("engine") == "c01faults":
        ci = CLASSES[case["class"]]
        acc = Acc()
        run_faults(ci, acc)
        for f in acc.failures:
            c = f["case"]
            if (c["op"], c["path"]) == (case["op"], case["path"]):
                return f["desc"]
        return acc.failures[0]["desc"] if acc.failures else None
    return wm.replay_world(case, post=_post)
