"""C02 read-through: every read reflects the backend now; handles stay attached across reloads."""
import copy

from hypothesis import strategies as st

from .. import gen, ops, wm
from ..classes import ABSENT, ALL, CLASSES, HarnessError
from ..plain import enc, h64, kind_of
from ..runner import Acc, hyp_search
from ..world import get_path

ID = "C02"
LEVEL = "exploration"
KINDS = ["null", "scalar", "dict", "list"]
RULE = ("Hypothesis-generated histories: 1-2 root objects on one resource plus retained child handles, "
        "interleaved with an OUTSIDE WRITER that rewrites the resource: a position anywhere in the "
        "document is replaced by a new JSON value with the (old kind -> new kind) pair steered "
        "uniformly over {null,scalar,dict,list}^2 plus same-kind-other-content, list longer/shorter, "
        "key added/removed and equal rewrites, and (JSON classes) valid JSON of the OTHER root kind, "
        "after which every operation must raise until a repairing rewrite; then every read API is issued through roots and "
        "handles, and setitem/append/delitem/setdefault through handles; one step in twenty starts a "
        "script: a mutation (root clear()/reset() included), an outside rewrite, the same mutation again. Oracle: every outcome equals "
        "the plain model of the resource at call time (== and, for the values read, the same JSON leaf "
        "types: true is not 1, 1 is not 1.0), for handles only while attached by the "
        "C02 wording; after a write the independently read resource equals the model. Non-trivial = "
        "an operation through a tree that had not loaded since the last rewrite and whose expected "
        "outcome differs from what it would have been before that rewrite; distinct by (class, kind "
        "pair, op, handle depth, relation of rewrite position to handle). Additional coverage-guided "
        "campaigns (atheris/libFuzzer mutating the byte string that feeds the same generator; edge "
        "coverage of synced_collections as feedback; all classes in thorough, two in quick).")
ASSUMPTIONS = [
    "while the resource holds the other root kind operations must raise (documented ValueError); handles "
    "detached by the wording of C02 are not checked",
    "the outside writer stores the whole document (fakes for Redis/MongoDB/Zarr)",
    "reads compared with == on plain data (1 == True == 1.0); leaf-type exactness is C12's",
]


def shards(tier):
    reps = 1 if tier == "quick" else 8
    out = [{"cls": c.name, "rep": r} for c in ALL for r in range(reps)]
    # coverage-guided campaigns (atheris) over the same case function; two classes in quick
    fz = ALL if tier == "thorough" else [c for c in ALL if c.name in ("JSONDict", "MemoryBufferedJSONList")]
    return out + [{"cls": c.name, "mode": "fuzz"} for c in fz]


def positions(doc, pre=(), out=None):
    if out is None:
        out = []
    it = doc.items() if isinstance(doc, dict) else enumerate(doc) if isinstance(doc, list) else ()
    for k, v in it:
        out.append((pre + (k,), v))
        positions(v, pre + (k,), out)
    return out


def _of_kind(draw, dom, kind):
    if kind == "null":
        return None
    if kind == "scalar":
        return draw(dom.scalars().filter(lambda x: x is not None))
    if kind == "dict":
        return draw(dom.dicts(4))
    return draw(dom.lists(4))


def draw_rewrite(draw, w, dom, r=0):
    doc = copy.deepcopy(w.docs[r])
    pos = positions(doc)
    style = draw(st.sampled_from(["pair", "pair", "pair", "pair", "struct", "same", "equal", "whole"]))
    meta = {"style": style}
    if not pos or style == "whole":
        new = draw(dom.doc(w.root_ci[r].kind))
        meta.update(path=[], old=kind_of(doc), new=kind_of(new))
        return {"t": "rewrite", "r": r, "doc": enc(new), "meta": meta}
    # prefer positions on the path of some attached handle (that is where staleness matters)
    hot = [p for p in pos if any(h.attached and h.res == r and (h.path[:len(p[0])] == p[0] or p[0][:len(h.path)] == h.path) and h.path
                                 for h in w.handles)]
    path, old = draw(st.sampled_from(hot if hot and draw(st.integers(0, 3)) else pos))
    parent = get_path(doc, path[:-1])
    ok = kind_of(old)
    if style == "pair":
        nk = draw(st.sampled_from(KINDS))
        new = _of_kind(draw, dom, nk)
    elif style == "same":
        nk = ok
        if ok == "list":
            v = draw(st.sampled_from(["longer", "shorter", "other"]))
            if v == "longer":
                new = old + draw(dom.lists(3, max_size=2)) + [draw(dom.values(3))]
            elif v == "shorter":
                new = old[:draw(st.integers(0, max(0, len(old) - 1)))]
            else:
                new = _of_kind(draw, dom, "list")
        else:
            new = _of_kind(draw, dom, ok)
    elif style == "equal":
        nk, new = ok, copy.deepcopy(old)
    else:  # struct: add / remove / shift inside the parent container
        nk = ok
        new = old
        if isinstance(parent, dict):
            if draw(st.booleans()):
                parent.pop(path[-1])
                meta["struct"] = "key_removed"
            else:
                parent[draw(dom.keys())] = draw(dom.values(3))
                meta["struct"] = "key_added"
        else:
            if draw(st.booleans()):
                del parent[path[-1]]
                meta["struct"] = "elem_removed"
            else:
                parent.insert(draw(st.integers(0, len(parent))), draw(dom.values(3)))
                meta["struct"] = "elem_inserted"
        meta.update(path=list(path), old=ok, new=nk)
        return {"t": "rewrite", "r": r, "doc": enc(doc), "meta": meta}
    parent[path[-1]] = new
    meta.update(path=list(path), old=ok, new=nk)
    return {"t": "rewrite", "r": r, "doc": enc(doc), "meta": meta}


W_METHODS = {"dict": ["setitem", "delitem", "setdefault"], "list": ["setitem", "append", "delitem"]}


def _gen_step(ci, dom, st8):
    def g(draw, w):
        roots = [i for i, h in enumerate(w.handles) if not h.path and h.attached]
        if not roots:
            return {"t": "new", "r": 0, "id": w.next_id()}
        q = st8.setdefault("queue", [])
        while q:
            s = q.pop(0)
            if s == "REWRITE":
                s = draw_rewrite(draw, w, dom)
                st8["loaded"] = set()
                st8["before"] = copy.deepcopy(w.docs[0])
                st8["meta"] = s["meta"]
                return s
            if w.usable(s["h"]):
                st8["loaded"].add(w.handles[s["h"]].obj)
                return copy.deepcopy(s)
        c = draw(st.integers(0, 19))
        if c == 0 and len(roots) < 2:
            return {"t": "new", "r": 0, "id": w.next_id()}
        if c == 19 and 0 not in w.poisoned:
            # A-rewrite-A: the SAME mutation is issued again after the outside writer changed the
            # resource in between (root clear()/reset() included: they save without loading first)
            hi = draw(st.sampled_from(roots)) if draw(st.booleans()) else gen.pick_handle(draw, w)
            if hi is not None:
                hk = w.handles[hi].kind
                ms = W_METHODS[hk] + (["clear", "reset", "reset"] if not w.handles[hi].path else [])
                x = gen.draw_mutator(draw, w, hi, dom, methods=ms, p_raise=0)
                q.extend(["REWRITE", copy.deepcopy(x)])
                st8["loaded"].add(w.handles[hi].obj)
                st8["aba"] = st8.get("aba", 0) + 1
                return x
        if c < 5:
            s = gen.draw_take(draw, w)
            if s is not None:
                st8["loaded"].add(w.handles[s["h"]].obj)
                return s
        if c == 9 and ci.backend == "json" and 0 not in w.poisoned and draw(st.integers(0, 2)) == 0:
            # valid JSON of the other root kind: reads must fail until the next (repairing) rewrite
            other = [1, {"a": 2}] if ci.kind == "dict" else {"a": [1]}
            st8["loaded"] = set()
            st8["before"] = None
            return {"t": "rewrite", "r": 0, "doc": enc(other), "poison": True}
        if c < 10 or 0 in w.poisoned and c < 14:
            s = draw_rewrite(draw, w, dom)
            st8["loaded"] = set()
            st8["before"] = copy.deepcopy(w.docs[0])
            st8["meta"] = s["meta"]
            return s
        hi = gen.pick_handle(draw, w)
        if hi is None:
            return None
        h = w.handles[hi]
        if draw(st.integers(0, 9)) < 7:
            s = gen.draw_read(draw, w, hi, dom, refs=False)
        else:
            s = gen.draw_mutator(draw, w, hi, dom, methods=W_METHODS[h.kind], p_raise=1, refs=True)
        # non-triviality: first op of this tree after a rewrite whose expected outcome changed
        if st8.get("before") is not None and h.obj not in st8["loaded"]:
            from ..plain import dec
            a, kw = dec(s.get("a", [])), dec(s.get("kw", {}))
            now = ops.model_apply(copy.deepcopy(w.model_at(h)), h.kind, s["m"], a, kw)
            try:
                old_c = copy.deepcopy(get_path(st8["before"], h.path))
                if kind_of(old_c) != h.kind:
                    raise LookupError
                was = ops.model_apply(old_c, h.kind, s["m"], a, kw)
                differs = was.brief() != now.brief() or old_c != w.model_at(h)
            except LookupError:
                differs = True
            if differs:
                m = st8["meta"]
                rel = "at" if tuple(m["path"]) == h.path else (
                    "below" if tuple(m["path"])[:len(h.path)] == h.path else "above")
                st8["nt"].append((m["old"], m["new"], m.get("struct", m["style"]), s["m"],
                                  min(len(h.path), 3), rel))
        st8["loaded"].add(h.obj)
        return s
    return g


def make_one(spec, tier, acc):
    ci = CLASSES[spec["cls"]]
    dom = gen.Dom(ci)
    max_steps = 30 if tier == "quick" else 45

    def one(data):
        draw = data.draw
        init = draw(st.one_of(dom.doc(ci.kind), dom.doc(ci.kind), st.just(ABSENT)))
        st8 = {"loaded": set(), "before": None, "nt": []}
        w = wm.run_generated(ID, ci, [init], _gen_step(ci, dom, st8), draw, max_steps, exact=True)
        cnt = {}
        for t in st8["nt"]:
            cnt[f"pair.{t[0]}->{t[1]}"] = cnt.get(f"pair.{t[0]}->{t[1]}", 0) + 1
            cnt[f"style.{t[2]}"] = cnt.get(f"style.{t[2]}", 0) + 1
            cnt[f"rel.{t[5]}"] = cnt.get(f"rel.{t[5]}", 0) + 1
        cnt["same_mutation_repeated_after_rewrite"] = st8.get("aba", 0)
        nt = st8["nt"]
        sample = {"class": ci.name, "initial": repr(init),
                  "steps": [{k: v for k, v in s.items() if k != "meta"} for s in w.log[:14]]} if nt else None
        acc.case([h64(ci.name, t) for t in nt], sample, cnt)
    return one


def run_shard(spec, seed, tier, active):
    acc = Acc()
    if spec.get("mode") == "fuzz":
        from .. import fuzz
        return fuzz.run_campaign("c02", spec, seed, acc, minimise=wm.minimize_world, tier=tier)
    n = 70 if tier == "quick" else 500
    fail = hyp_search(make_one(spec, tier, acc), n, seed)
    if fail is not None:
        acc.failures.append(wm.minimize_world(fail))
    return acc.result()


def coverage_extra(tier, results):
    cells = {}
    for r in results:
        for k, v in r["counters"].items():
            if k.startswith("pair."):
                cells[k[5:]] = cells.get(k[5:], 0) + v
    matrix = {f"{a}->{b}": cells.get(f"{a}->{b}", 0) for a in KINDS for b in KINDS}
    empty = [k for k, v in matrix.items() if v == 0]
    if tier == "thorough" and empty:
        raise HarnessError(f"C02 generator defect: kind-pair cells never exercised: {empty}")
    return {"kind_pair_matrix_nontrivial_reads": matrix, "empty_cells": empty}


def replay(case):
    return wm.replay_world(case)
