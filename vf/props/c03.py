"""C03 refinement of built-in dict/list: same results, same errors, same content."""
from hypothesis import strategies as st

from .. import gen, ops, wm
from ..classes import ABSENT, ALL, CLASSES
from ..plain import enc, h64
from ..runner import Acc, hyp_search

ID = "C03"
LEVEL = "exploration"
RULE = ("Hypothesis-generated programs over the whole MutableMapping/MutableSequence surface "
        "(mutators, reads, mixin methods index/count/reversed/pop/reverse/remove/+=, plain and "
        "extended slices, negative and out-of-range indices, missing and unhashable keys, == != < <= "
        "> >= against plain operands, near-miss operands, other synced objects of the same and of "
        "another class, and non-sequences), applied at roots and nested handles of all 18 classes; "
        "tuples/bytes are mixed into stored values. Each call's outcome (plain result or exception "
        "family) is compared with the same call on a built-in dict/list; after every mutator, also a "
        "raising one, the independently read resource must equal the model. An extra 'ordered' part "
        "(JSON classes; one object, no update/reset, no outside writer) also compares dict key "
        "order and popitem() LIFO order exactly. Non-trivial case = "
        "contains a call that is a mixin method, a slice, an out-of-range/negative index, a missing "
        "key, a comparison or any call at depth>=1; distinct = distinct set of (op, argument shape, "
        "depth, outcome kind) signatures plus class.")
ASSUMPTIONS = [
    "documented deviations encoded in the model: dict pop() default None, reset(), key order ignored "
    "(except in the 'ordered' part, whose histories contain no bulk update and no second writer; key "
    "order across a re-open or in the file is not asserted), "
    "tuples/bytes stored as lists, forbidden data not generated here (C11)",
    "exceptions compared by family: KeyError/IndexError/ValueError/TypeError/AttributeError",
    "Redis/MongoDB/Zarr via fakes",
]

OTHER = {"dict": ["JSONDict", "BufferedJSONDict", "RedisDict", "JSONAttrDict"],
         "list": ["JSONList", "MemoryBufferedJSONList", "ZarrList", "JSONAttrList"]}


def shards(tier):
    reps = 1 if tier == "quick" else 8
    out = [{"cls": c.name, "rep": r} for c in ALL for r in range(reps)]
    # "ordered" part: histories in which a built-in dict's key order is the specified one
    out += [{"cls": c.name, "rep": r, "part": "ordered"} for c in ALL if c.backend == "json"
            for r in range(max(1, reps // 2))]
    return out


ORD_MUT = {"dict": ["setitem", "delitem", "pop", "popitem", "clear", "setdefault", "setitem", "popitem"],
           "list": ["setitem", "delitem", "insert", "append", "extend", "iadd", "remove", "pop",
                    "reverse", "clear"]}
ORD_READ = {"dict": ["iter", "keys", "values", "items", "call", "getitem", "popitem_probe"],
            "list": ["call", "getitem", "iter"]}


def _gen_step_ordered(ci, dom):
    """One object on one file, no bulk merges (update/reset) and no outside writer: insertion order
    of every dict is then exactly the built-in dict's, so iteration order and popitem() (LIFO) are
    compared exactly, at every depth."""
    def g(draw, w):
        if not w.handles:
            return {"t": "new", "r": 0, "id": w.next_id()}
        c = draw(st.integers(0, 9))
        if c < 2:
            s = gen.draw_take(draw, w)
            if s is not None:
                return s
        hi = gen.pick_handle(draw, w)
        if hi is None:
            return None
        k = w.handles[hi].kind
        if c < 7:
            return gen.draw_mutator(draw, w, hi, dom, methods=ORD_MUT[k], p_raise=1)
        ms = [m for m in ORD_READ[k] if m != "popitem_probe"]
        return gen.draw_read(draw, w, hi, dom, methods=ms)
    return g


def _gen_step(ci, dom):
    def g(draw, w):
        if not w.handles:
            return {"t": "new", "r": 0, "id": w.next_id()}
        if w.nstep <= 3 and w.plan_operands:
            # set up operand objects early: a freshly opened (never loaded) synced object of the
            # same or of another class, holding content equal / close to the first document
            if len(w.res) < 2:
                import copy as _c
                k = w.root_ci[0].kind
                name = (ci if draw(st.booleans()) else CLASSES[draw(st.sampled_from(OTHER[k]))]).name
                oci = CLASSES[name]
                doc = _c.deepcopy(w.docs[0])
                if isinstance(doc, list) and draw(st.booleans()):
                    if doc and draw(st.booleans()):
                        doc[-1] = draw(dom.scalars())
                    else:
                        doc.append(draw(dom.scalars()))
                if oci.attr and "." in __import__("json").dumps(list(_keys(doc))):
                    doc = {} if k == "dict" else []
                if oci.backend == "mongo" and not _mongo_ok(doc):
                    doc = {} if k == "dict" else []
                return {"t": "newres", "cls": name, "doc": enc(doc)}
            if not any(h.res == 1 for h in w.handles):
                return {"t": "new", "r": 1, "id": w.next_id()}
        c = draw(st.integers(0, 19))
        if c == 0 and len(w.res) < 3:
            # an operand object: same class, or another class of the same data type
            k = draw(st.sampled_from(["dict", "list"]))
            if draw(st.booleans()):
                name = (ci if ci.kind == k else ci.peer).name
            else:
                name = draw(st.sampled_from(OTHER[k]))
            oci = CLASSES[name]
            doc = draw(gen.Dom(oci).doc(k)) if draw(st.booleans()) else \
                __import__("copy").deepcopy(w.docs[0] if w.root_ci[0].kind == k else ({} if k == "dict" else []))
            if oci.attr:
                import json
                if "." in json.dumps(list(_keys(doc))):
                    doc = {} if k == "dict" else []
            return {"t": "newres", "cls": name, "doc": enc(doc)}
        if c == 1 and len(w.res) > 1:
            r = draw(st.integers(1, len(w.res) - 1))
            return {"t": "new", "r": r, "id": w.next_id()}
        if c < 5:
            s = gen.draw_take(draw, w)
            if s is not None:
                return s
        own = [i for i in w.attached_handles() if w.handles[i].res == 0]
        hi = gen.pick_handle(draw, w, among=own)
        if hi is None:
            return None
        if draw(st.booleans()):
            return gen.draw_mutator(draw, w, hi, dom, p_raise=3, tuples=True)
        if w.handles[hi].kind == "list" and draw(st.integers(0, 3)) == 0:
            return gen.draw_read(draw, w, hi, dom, methods=["lt", "le", "gt", "ge", "eq", "ne"])
        return gen.draw_read(draw, w, hi, dom)
    return g


def _mongo_ok(v):
    if isinstance(v, dict):
        return all("\x00" not in k and _mongo_ok(x) for k, x in v.items())
    if isinstance(v, list):
        return all(_mongo_ok(x) for x in v)
    if isinstance(v, int) and not isinstance(v, bool):
        return -(2**63) <= v < 2**63
    return True


def _keys(doc):
    if isinstance(doc, dict):
        for k, v in doc.items():
            yield k
            yield from _keys(v)
    elif isinstance(doc, list):
        for v in doc:
            yield from _keys(v)


MIXIN = {"index", "count", "reversed", "pop", "reverse", "remove", "iadd", "popitem", "setdefault",
         "update", "contains", "keys", "values", "items", "get", "eq", "ne", "lt", "le", "gt", "ge"}


def _sig(w, s, out):
    h = w.handles[s["h"]]
    a = s.get("a", [])
    shape = []
    for x in a:
        if isinstance(x, dict) and "$s" in x:
            shape.append("slice" + ("x" if x["$s"][2] not in (None, 1) else ""))
        elif isinstance(x, dict) and "$h" in x:
            shape.append("ref")
        elif isinstance(x, bool) or x is None:
            shape.append("c")
        elif isinstance(x, int):
            shape.append("neg" if x < 0 else "int")
        elif isinstance(x, (list, dict)):
            shape.append("cont")
        else:
            shape.append("s")
    return (h.kind, s["m"], tuple(shape), min(len(h.path), 3), out)


def run_shard(spec, seed, tier, active):
    ci = CLASSES[spec["cls"]]
    dom = gen.Dom(ci)
    acc = Acc()
    n = 70 if tier == "quick" else 500
    max_steps = 30 if tier == "quick" else 45

    def one(data):
        draw = data.draw
        init = draw(st.one_of(st.just(ABSENT), dom.doc(ci.kind), dom.doc(ci.kind)))
        sigs = set()
        ordered = spec.get("part") == "ordered"
        g = _gen_step_ordered(ci, dom) if ordered else _gen_step(ci, dom)
        plan_operands = draw(st.booleans())

        def gstep(dr, w):
            w.plan_operands = plan_operands
            return g(dr, w)

        w = wm.run_generated(ID, ci, [init], gstep, draw, max_steps, **({"ordered": True} if ordered else {}))
        nt = False
        cnt = {}
        # re-derive signatures from the log (outcome kind unknown post hoc: use model replay-free shape)
        for s in w.log:
            if s["t"] != "op":
                continue
            sg = _sig(w, s, "")
            sigs.add(sg)
            m = s["m"]
            interesting = (m in MIXIN or "slice" in "".join(sg[2]) or "neg" in sg[2] or sg[3] >= 1)
            nt = nt or interesting
            cnt[f"{sg[0]}.{m}"] = cnt.get(f"{sg[0]}.{m}", 0) + 1
        cnt.update({f"raised={k}": v for k, v in w.events.items() if isinstance(k, str) and k.startswith("raise")})
        cnt["ops_raising_in_model"] = w.events.get("model_raise", 0)
        if ordered:
            cnt["ordered_part_cases"] = 1
            nt = nt and any(s["t"] == "op" and s["m"] in ("iter", "keys", "items", "values", "call", "popitem")
                            for s in w.log)
        sample = {"class": ci.name, "initial": repr(init), "steps": w.log[:14]} if nt else None
        acc.case([h64(ci.name, sorted(map(repr, sigs)))] if nt else (), sample, cnt)

    fail = hyp_search(one, n, seed)
    if fail is not None:
        acc.failures.append(wm.minimize_world(fail))
    return acc.result()


def replay(case):
    return wm.replay_world(case)
