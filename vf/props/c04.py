"""C04: writes through any handle never clobber changes made via other handles."""
import copy
from hypothesis import strategies as st

from .. import gen, ops, wm
from ..classes import ABSENT, ALL, CLASSES
from ..plain import enc, h64
from ..runner import Acc, hyp_search

ID = "C04"
LEVEL = "exploration"
RULE = ("Hypothesis-generated sequential histories over 2-3 root objects bound to ONE resource plus up "
        "to 6 retained nested-child handles spread over them (no outside writer); steps = any public "
        "mutator (clear()/reset() on nested handles over-weighted) or read through any root or "
        "specification-attached handle, drawn so that consecutive operations usually switch objects; "
        "one step in twenty starts an A-B-A script (object A mutates, object B changes the same "
        "place, A repeats the same mutation); mutations are also issued through child handles whose "
        "position was REPLACED or REMOVED through their own object (setitem/del/pop/popitem/clear): "
        "like the old value of d[k] on a built-in dict they are no longer part of the data, so the "
        "resource and every root must stay unchanged. "
        "Oracle: all handles behave as one plain structure - every outcome equals the model's, the "
        "independently read resource equals the model after every mutator, every root's () equals it "
        "at the end. Non-trivial = a mutator through tree A executed while another tree wrote since "
        "A's tree last loaded (a stale handle); distinct by (class, mutator, handle depth, writer "
        "pattern) sequence.")
ASSUMPTIONS = [
    "handles the C02 wording makes detached (position reassigned/removed/index-shifted through the same "
    "object, or kind changed) are not used afterwards: their behaviour is unspecified",
    "root clear()/reset() are issued too; the model treats them like dict.clear()/replacement",
    "Redis/MongoDB/Zarr via fakes",
]


def shards(tier):
    reps = 1 if tier == "quick" else 8
    return [{"cls": c.name, "rep": r} for c in ALL for r in range(reps)]


def _gen_step(ci, dom, state):
    def g(draw, w):
        roots = [i for i, h in enumerate(w.handles) if h.attached and not h.path]
        if len(roots) < 2:
            return {"t": "new", "r": 0, "id": w.next_id()}
        q = state.setdefault("queue", [])
        while q:
            s = q.pop(0)
            if s["t"] == "stale_op":
                return copy.deepcopy(s)
            if w.usable(s["h"]):
                state["last_obj"] = w.handles[s["h"]].obj
                return copy.deepcopy(s)
        c = draw(st.integers(0, 19))
        if c == 0 and len(roots) < 3:
            return {"t": "new", "r": 0, "id": w.next_id()}
        if c == 19:
            # A-B-A: object A mutates, object B changes the same place, A repeats the SAME mutation
            # (per-object "nothing changed since my last save" shortcuts must not drop the write)
            ha = draw(st.sampled_from(roots)) if draw(st.booleans()) else draw(st.sampled_from(w.attached_handles()))
            A = w.handles[ha]
            hbs = [i for i in w.attached_handles() if w.handles[i].obj != A.obj and w.handles[i].path == A.path
                   and w.handles[i].res == A.res]
            if hbs:
                hb = draw(st.sampled_from(hbs))
                x = gen.draw_mutator(draw, w, ha, dom, p_raise=0)
                if A.kind == "dict" and x["m"] in ("setitem", "setdefault", "delitem", "pop") and draw(st.integers(0, 3)):
                    y = {"t": "op", "h": hb, "m": "setitem", "a": [x["a"][0], enc(draw(dom.scalars()))]}
                elif A.kind == "list" and x["m"] == "setitem" and draw(st.integers(0, 3)):
                    y = {"t": "op", "h": hb, "m": "setitem", "a": [x["a"][0], enc(draw(dom.scalars()))]}
                else:
                    y = gen.draw_mutator(draw, w, hb, dom, p_raise=0)
                q.extend([y, copy.deepcopy(x)])
                state["aba"] = state.get("aba", 0) + 1
                return x
        stale = [i for i, h in enumerate(w.handles) if h.unlinked and h.real is not None]
        if c == 16:
            # replace the position of a retained first-level child THROUGH ITS OWN OBJECT by a fresh
            # container of the same kind, then mutate through the old child
            kids = [i for i in w.attached_handles() if len(w.handles[i].path) == 1]
            if kids:
                gi = draw(st.sampled_from(kids))
                gch = w.handles[gi]
                parents = [i for i in w.attached_handles() if w.handles[i].obj == gch.obj and not w.handles[i].path]
                if parents:
                    newv = draw(dom.dicts(3)) if gch.kind == "dict" else draw(dom.lists(3))
                    if gch.kind == "dict":
                        sm = draw(st.sampled_from([("setitem", ["zz_stale", 1]), ("clear", []), ("update", [{"zz_stale": [3]}])]))
                    else:
                        sm = draw(st.sampled_from([("append", ["zz_stale"]), ("clear", []), ("extend", [[1, 2]])]))
                    q.append({"t": "stale_op", "h": gi, "m": sm[0], "a": enc(sm[1])})
                    return {"t": "op", "h": parents[0], "m": "setitem", "a": [enc(gch.path[0]), enc(newv)]}
        if stale and c in (17, 18):
            # a child handle whose position was reassigned/removed through its own object: in one
            # shared plain structure the old child is no longer part of the data
            i = draw(st.sampled_from(stale))
            if w.handles[i].kind == "dict":
                m, a = draw(st.sampled_from([("setitem", ["zz_stale", 1]), ("clear", []), ("reset", [{"zz_stale": 2}]),
                                             ("update", [{"zz_stale": [3]}]), ("setdefault", ["zz_stale", {}])]))
            else:
                m, a = draw(st.sampled_from([("append", ["zz_stale"]), ("clear", []), ("reset", [["zz_stale"]]),
                                             ("extend", [[1, 2]]), ("insert", [0, {"zz": 1}])]))
            return {"t": "stale_op", "h": i, "m": m, "a": enc(a)}
        nested = [i for i in w.attached_handles() if w.handles[i].path]
        if c < 6 and len(nested) < 6:
            s = gen.draw_take(draw, w)
            if s is not None:
                return s
        att = w.attached_handles()
        # prefer a handle of a tree other than the one used last
        other = [i for i in att if w.handles[i].obj != state.get("last_obj")]
        pool = other if other and draw(st.integers(0, 9)) < 8 else att
        if nested and draw(st.integers(0, 2)) == 0:
            np_ = [i for i in pool if w.handles[i].path]
            pool = np_ or pool
        hi = draw(st.sampled_from(pool))
        state["last_obj"] = w.handles[hi].obj
        if draw(st.integers(0, 9)) < 7:
            h = w.handles[hi]
            methods = None
            if h.path and draw(st.integers(0, 3)) == 0:
                methods = ["clear", "reset"]
            return gen.draw_mutator(draw, w, hi, dom, methods=methods, p_raise=1, p_inv=6)
        return gen.draw_read(draw, w, hi, dom, refs=False)
    return g


def _analyse(w):
    """Stale-handle mutations: (mutator, depth, #foreign writes since own tree last loaded)."""
    last_load = {}
    writes = []  # (step index, obj)
    pats = []
    for n, s in enumerate(w.log):
        if s["t"] == "take":
            last_load[w.handles[s["h"]].obj] = n
        if s["t"] != "op":
            continue
        h = w.handles[s["h"]]
        mut = ops.is_mutator(h.kind, s["m"])
        if mut:
            since = last_load.get(h.obj, -1)
            foreign = [o for (k, o) in writes if k > since and o != h.obj]
            if foreign:
                pats.append((s["m"], min(len(h.path), 3), min(len(foreign), 3)))
            writes.append((n, h.obj))
        last_load[h.obj] = n
    return pats


def run_shard(spec, seed, tier, active):
    ci = CLASSES[spec["cls"]]
    dom = gen.Dom(ci)
    acc = Acc()
    n = 60 if tier == "quick" else 400
    max_steps = 30 if tier == "quick" else 45

    def one(data):
        draw = data.draw
        init = draw(st.one_of(st.just(ABSENT), dom.doc(ci.kind), dom.doc(ci.kind), dom.doc(ci.kind)))
        state = {}
        w = wm.run_generated(ID, ci, [init], _gen_step(ci, dom, state), draw, max_steps)
        pats = _analyse(w)
        cnt = {"stale_mutations": len(pats), "A_B_A_same_mutation_scripts": state.get("aba", 0),
               "mutations_through_unlinked_handles": w.events.get("mutation_through_unlinked_handle", 0)}
        for p in pats:
            cnt[f"stale.{p[0]}.depth{p[1]}"] = cnt.get(f"stale.{p[0]}.depth{p[1]}", 0) + 1
        sample = {"class": ci.name, "initial": repr(init), "steps": w.log[:16]} if pats else None
        acc.case([h64(ci.name, pats)] if pats else (), sample, cnt)

    fail = hyp_search(one, n, seed)
    if fail is not None:
        acc.failures.append(wm.minimize_world(fail))
    return acc.result()


def replay(case):
    return wm.replay_world(case)
