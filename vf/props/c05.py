"""C05: buffered mode is transparent and defers all writes to the outermost exit."""
from hypothesis import strategies as st

from .. import gen, ops, wm
from ..classes import ABSENT, BUFFERED, CLASSES
from ..plain import h64
from ..runner import Acc, hyp_search

ID = "C05"
LEVEL = "exploration"
RULE = ("Hypothesis-generated programs for the 8 buffered classes ({Buffered,MemoryBuffered} x {Dict,"
        "List,AttrDict,AttrList}): one object (in half of the cases a second object on a DIFFERENT "
        "file), steps = enter obj.buffered / enter Class.buffer_backend() / exit innermost (a stack, "
        "so any well-nested order of the two kinds), outside rewrites of the file between sessions, every mutator and read at roots and retained "
        "nested handles, incl. clear/reset/update. Capacity stays at the class default. Oracle: (a) "
        "every outcome equals the unbuffered plain model; (b) while the object is buffered the file's "
        "(bytes, inode, size, mtime_ns) are what they were when it became buffered; (c) right after "
        "the exit that makes it unbuffered the independently read file equals the model; (d) buffer "
        "size 0 at the end; no exit raises. A second, model-free part runs the same sequence - including "
        "operations that are REJECTED HALF-WAY (update/extend/+=/reset/slice with a forbidden item among "
        "valid ones) - on an unbuffered object and on a buffered one under every context nesting: "
        "outcomes, reads and the final file must be identical. Non-trivial = >=2 nested context levels, or one of "
        "clear/reset/update/nested-child mutator executed while buffered, followed by a read and an "
        "exit; distinct by (class, context-shape, buffered op kinds).")
ASSUMPTIONS = [
    "default capacity, so no capacity-forced flush (forced flushes are C15/C07)",
    "one object per file (several objects on one file are C06)",
    "tmpfs stat: nanosecond mtime and a new inode on every atomic save",
]


def shards(tier):
    reps = 2 if tier == "quick" else 12
    return [{"cls": c.name, "rep": r} for c in BUFFERED for r in range(reps)] + \
           [{"cls": c.name, "mode": "diff"} for c in BUFFERED]


# ---- differential part: buffered == unbuffered also for operations that fail half-way

def _apply_seq(obj, kind, seq):
    out = []
    for (m, a) in seq:
        o = ops.real_apply(obj, kind, m, a, {})
        out.append(o.brief()[:2])
    return out


def run_diff_case(case):
    """The same operation sequence on an unbuffered object and on a buffered one (given context
    nesting): outcomes, reads and the final file must be identical. No model is involved, so
    operations whose effect on built-ins is not defined (rejected half-way) can be included."""
    import copy
    import shutil
    from ..classes import new_resource, reset_class_state
    from ..plain import dec
    from ..world import Mismatch
    ci = CLASSES[case["class"]]
    seq = [(m, dec(a)) for (m, a) in case["ops"]]
    init = dec(case["init"])
    d = wm.case_dir()
    reset_class_state()
    try:
        ru = new_resource(ci, d, "u.json")
        rb = new_resource(ci, d, "b.json")
        for r in (ru, rb):
            r.write(copy.deepcopy(init))
        U, B = ru.make(ci), rb.make(ci)
        ou = _apply_seq(U, ci.kind, seq)
        ctxs = []
        for k in case["ctx"]:
            c = B.buffered if k == "obj" else type(B).buffer_backend()
            c.__enter__()
            ctxs.append(c)
        ob = _apply_seq(B, ci.kind, seq)
        for c in reversed(ctxs):
            c.__exit__(None, None, None)
        if ou != ob:
            first = next(i for i, (x, y) in enumerate(zip(ou, ob)) if x != y)
            raise Mismatch("buffered_outcome_differs_from_unbuffered", op=case["ops"][first],
                           unbuffered=ou[first], buffered=ob[first], index=first)
        fu, fb = ru.read(), rb.read()
        if fu != fb:
            raise Mismatch("buffered_final_file_differs_from_unbuffered", unbuffered=fu, buffered=fb)
        if U() != B():
            raise Mismatch("buffered_object_differs_from_unbuffered", unbuffered=U(), buffered=B())
    finally:
        reset_class_state()
        shutil.rmtree(d, ignore_errors=True)


def _draw_diff_case(draw, ci):
    from ..plain import enc
    dom = gen.Dom(ci)
    from ..plain import Inv
    inv = Inv("intkey")
    v = lambda: draw(dom.values(3))  # noqa: E731
    seq = []
    kind = ci.kind
    init = draw(dom.doc(kind))
    for _ in range(draw(st.integers(0, 2))):
        seq.append(("setitem", ["k%d" % draw(st.integers(0, 2)), v()]) if kind == "dict" else ("append", [v()]))
    if kind == "dict":
        order = draw(st.permutations(["good1", "bad", "good2"]))
        payload = {k: (inv if k == "bad" else v()) for k in order}
        form = draw(st.sampled_from(["map", "pairs", "over_existing"]))
        if form == "map":
            seq.append(("update", [payload]))
        elif form == "pairs":
            seq.append(("update", [[[k, x] for k, x in payload.items()]]))
        else:
            keys = list(init.keys())[:2]
            p2 = {**{k: v() for k in keys}, **payload}
            seq.append(("update", [p2]))
    else:
        m = draw(st.sampled_from(["extend", "iadd", "reset", "setslice"]))
        items = [v(), inv, v()]
        if m == "setslice":
            from ..plain import Slice
            seq.append(("setitem", [Slice(0, 1, None), items]))
        else:
            seq.append((m, [items]))
    seq.append(("call", []))
    seq.append(("setitem", ["after", 1]) if kind == "dict" else ("append", ["after"]))
    seq.append(("call", []))
    return {"property": ID, "engine": "c05diff", "class": ci.name, "init": enc(init),
            "ctx": draw(st.sampled_from([["obj"], ["cls"], ["cls", "obj"], ["obj", "cls"], ["obj", "obj"]])),
            "ops": [[m, enc(a)] for (m, a) in seq]}


def _gen_step(ci, dom, two):
    def g(draw, w):
        roots = w.roots()
        if not any(w.handles[i].res == 0 for i in roots):
            if w.stack and w.res_buffered(0):
                # the file's only object was dropped inside a class-wide context and is still
                # buffered there: no second object is opened on it (one object per file; several
                # objects on one buffered file are C06's subject) - leave the contexts first
                return {"t": "exit"}
            return {"t": "new", "r": 0, "id": w.next_id()}
        if two and not any(w.handles[i].res == 1 for i in roots) and draw(st.integers(0, 4)) == 0 \
                and not (w.stack and w.res_buffered(1)):
            return {"t": "new", "r": 1, "id": w.next_id()}
        c = draw(st.integers(0, 19))
        if w.log and w.log[-1]["t"] == "rewrite" and draw(st.integers(0, 3)) != 0:
            return {"t": draw(st.sampled_from(["enter_obj", "enter_cls"])), "h": draw(st.sampled_from(roots))}
        if w.log and len(w.log) > 1 and w.log[-2]["t"] == "rewrite" and w.stack and draw(st.booleans()):
            hi0 = draw(st.sampled_from(roots))
            return gen.draw_read(draw, w, hi0, dom, methods=["call", "len"], refs=False)
        if c in (17, 18) and not w.stack and ci.backend == "json":
            # between buffered sessions an outside writer replaces the file (also by an EMPTY
            # container): the next session must start from that content
            r = draw(st.sampled_from(sorted({w.handles[i].res for i in roots})))
            doc = draw(st.one_of(st.just({} if ci.kind == "dict" else []), st.just({} if ci.kind == "dict" else []),
                                 dom.doc(ci.kind)))
            from ..plain import enc as _enc
            return {"t": "rewrite", "r": r, "doc": _enc(doc)}
        if c == 19 and w.stack and draw(st.booleans()):
            # the user drops an object inside a class-wide context (its writes must still be flushed)
            cand = [i for i in roots if w.obj_depth.get(i, 0) == 0
                    and w.cls_depth.get(type(w.handles[i].real), 0) > 0]
            if cand:
                return {"t": "drop", "h": draw(st.sampled_from(cand))}
        if c < 3 and len(w.stack) < 4:
            return {"t": "enter_obj", "h": draw(st.sampled_from(roots))}
        if c < 5 and len(w.stack) < 4:
            return {"t": "enter_cls", "h": draw(st.sampled_from(roots))}
        if c < 8 and w.stack:
            return {"t": "exit"}
        if c < 10:
            s = gen.draw_take(draw, w)
            if s is not None:
                return s
        # clear()/reset() as the FIRST access of a freshly buffered root is its own code path
        if w.stack and w.log and w.log[-1]["t"] in ("enter_obj", "enter_cls") and draw(st.integers(0, 2)) == 0:
            r0 = draw(st.sampled_from(roots))
            return gen.draw_mutator(draw, w, r0, dom, methods=["reset", "reset", "clear"], p_raise=0)
        hi = gen.pick_handle(draw, w)
        if hi is None:
            return None
        if draw(st.integers(0, 9)) < 6:
            methods = None
            if draw(st.integers(0, 3)) == 0:
                methods = ["clear", "reset", "update"] if w.handles[hi].kind == "dict" else ["clear", "reset", "extend"]
            return gen.draw_mutator(draw, w, hi, dom, methods=methods, p_raise=1)
        return gen.draw_read(draw, w, hi, dom, refs=False)
    return g


def _shape(w):
    """Context shape string + buffered op kinds, and whether the case is non-trivial."""
    depth = 0
    maxd = 0
    shape = []
    hot = []
    state = 0  # 0: nothing, 1: hot buffered op seen, 2: then a read, 3: then an exit
    for s in w.log:
        t = s["t"]
        if t in ("enter_obj", "enter_cls"):
            depth += 1
            maxd = max(maxd, depth)
            shape.append("o" if t == "enter_obj" else "c")
        elif t == "exit":
            depth -= 1
            shape.append(")")
            if state == 2:
                state = 3
        elif t == "op" and depth > 0:
            h = w.handles[s["h"]]
            m = s["m"]
            if ops.is_mutator(h.kind, m):
                if m in ("clear", "reset", "update") or h.path:
                    hot.append((m, min(len(h.path), 2)))
                    if state < 1:
                        state = 1
            elif state == 1:
                state = 2
    nt = maxd >= 2 or state == 3
    return nt, "".join(shape), maxd, hot


def run_shard(spec, seed, tier, active):
    ci = CLASSES[spec["cls"]]
    dom = gen.Dom(ci)
    acc = Acc()
    if spec.get("mode") == "diff":
        from ..runner import CaseFailure
        from ..world import Mismatch

        def one_d(data):
            case = _draw_diff_case(data.draw, ci)
            try:
                run_diff_case(case)
            except Mismatch as mm:
                raise CaseFailure(case, mm.describe())
            acc.case([h64(case["class"], case["ctx"], [o[0] for o in case["ops"]], case["ops"][-4])],
                     case if len(acc.samples) < 2 else None, {"diff.cases": 1})

        fail = hyp_search(one_d, 150 if tier == "quick" else 1500, seed)
        if fail is not None:
            acc.failures.append({"case": fail.case, "desc": fail.desc})
        return acc.result()
    n = 100 if tier == "quick" else 500
    max_steps = 35 if tier == "quick" else 50

    def one(data):
        draw = data.draw
        two = draw(st.booleans())
        init = draw(st.one_of(st.just(ABSENT), dom.doc(ci.kind), dom.doc(ci.kind)))
        docs = [init, draw(st.one_of(st.just(ABSENT), dom.doc(ci.kind)))] if two else [init]
        w = wm.run_generated(ID, ci, docs, _gen_step(ci, dom, two), draw, max_steps,
                             engine="bufworld")
        nt, shape, maxd, hot = _shape(w)
        cnt = {f"nest_depth={maxd}": 1, "buffered_ops": w.ever_buffered_ops}
        for m, d in hot:
            cnt[f"buffered.{m}.depth{d}"] = cnt.get(f"buffered.{m}.depth{d}", 0) + 1
        sample = {"class": ci.name, "initial": [repr(d) for d in docs], "steps": w.log[:16]} if nt else None
        acc.case([h64(ci.name, shape, sorted(set(hot)))] if nt else (), sample, cnt)

    fail = hyp_search(one, n, seed)
    if fail is not None:
        acc.failures.append(wm.minimize_world(fail))
    return acc.result()


def replay(case):
    if case.get("engine") == "c05diff":
        from ..world import Mismatch
        try:
            run_diff_case(case)
        except Mismatch as mm:
            return mm.describe()
        return None
    return wm.replay_world(case)
