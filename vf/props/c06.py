"""C06: objects on one file share one buffered state; the flush keeps all their writes."""
from hypothesis import strategies as st

from .. import gen, ops, wm
from ..classes import ABSENT, BUFFERED, CLASSES
from ..plain import enc, h64
from ..runner import Acc, excl_of, hyp_search

ID = "C06"
LEVEL = "exploration"
RULE = ("Hypothesis-generated scripted histories for the 8 buffered classes: k in {2,3} objects bound "
        "to ONE file, put into a COMMON buffered state (one Class.buffer_backend() context; or "
        "per-object obj.buffered contexts all entered before the first buffered operation and all "
        "exited after the last, in a generated permutation; or both nested; the backend-wide context in a "
        "third of the cases with a small capacity so that flushes are forced mid-session), then a generated "
        "sequence of (object or retained nested handle, read|mutator). Touch order (hence the LIFO "
        "flush order of the class-wide flush) is generated through the reads. No extra observation "
        "is made inside the context. Oracle: every generated read equals the plain model (all "
        "earlier writes through any object visible); after the common exit the independently read "
        "file equals the model, then every object's () equals it; buffer size 0. Non-trivial = some "
        "object only reads inside the buffered phase, another writes after that read, and the reader "
        "is flushed/exits before the writer; distinct by (class, context mode, k, per-object role "
        "pattern, flush order).")
ASSUMPTIONS = [
    "only identical buffered states are generated (the documentation declares mixed states unsupported)",
    "class-wide flush order is derived from first-touch order (LIFO popitem), as the code documents",
]


def shards(tier):
    reps = 2 if tier == "quick" else 12
    return [{"cls": c.name, "rep": r} for c in BUFFERED for r in range(reps)]


def _gen(ci, dom, plan):
    """plan: dict(mode, k, nbuf, exit_perm)."""
    def g(draw, w):
        roots = w.roots()
        if len(roots) < plan["k"] and not (plan.get("dropped") and plan["phase"] != "post"):
            return {"t": "new", "r": 0, "id": w.next_id()}
        ph = plan["phase"]
        if ph == "pre":
            # a few unbuffered ops, then enter
            if plan["pre"] > 0:
                plan["pre"] -= 1
                if draw(st.integers(0, 2)) == 0:
                    # a child handle retained from BEFORE the buffered phase
                    s = gen.draw_take(draw, w)
                    if s is not None:
                        return s
                return _op(draw, w, dom)
            plan["phase"] = "enter"
            plan["todo"] = ([("cls", roots[0])] if plan["mode"] in ("cls", "both") else []) + \
                           ([("obj", r) for r in roots] if plan["mode"] in ("obj", "both") else [])
            ph = "enter"
        if ph == "enter":
            if plan["todo"]:
                kind, r = plan["todo"].pop(0)
                step = {"t": "enter_" + kind, "h": r}
                if kind == "cls" and plan.get("cap") is not None:
                    step["cap"] = plan["cap"]      # small capacity: flushes are forced mid-session
                return step
            plan["phase"] = "buf"
            ph = "buf"
        if ph == "buf":
            while plan.get("script"):
                kind, o = plan["script"].pop(0)
                cand = [i for i in w.attached_handles() if w.handles[i].obj == roots[o % len(roots)]]
                if not cand:
                    continue
                hi = draw(st.sampled_from(cand))
                if kind == "r":
                    return gen.draw_read(draw, w, hi, dom, refs=False)
                if kind in ("aba_w1", "aba_w2", "aba_r"):
                    # A-B-A: one object changes the content, another object changes it back to
                    # byte-identical content, then the first object reads/writes again
                    root = [i for i in cand if not w.handles[i].path][0]
                    cont = w.model_at(w.handles[root])
                    isd = w.handles[root].kind == "dict"
                    if kind == "aba_r":
                        return {"t": "op", "h": root, "m": "call", "a": []}
                    if kind == "aba_w1":
                        plan["aba_before"] = __import__("copy").deepcopy(cont)
                        return ({"t": "op", "h": root, "m": "setitem", "a": enc(["aba", 2])} if isd
                                else {"t": "op", "h": root, "m": "append", "a": enc(["aba"])})
                    before = plan.get("aba_before")
                    if before is None:
                        continue
                    return {"t": "op", "h": root, "m": "reset", "a": enc([before])}
                return gen.draw_mutator(draw, w, hi, dom, p_raise=0)
            if plan["nbuf"] > 0:
                plan["nbuf"] -= 1
                if draw(st.integers(0, 5)) == 0:
                    s = gen.draw_take(draw, w)
                    if s is not None:
                        return s
                return _op(draw, w, dom, plan)
            if plan.get("drop_all") and plan["mode"] == "cls" and roots:
                # the user lets go of EVERY object of the file (and a GC pass runs) before the
                # class-wide context ends: what they wrote must still reach the file
                plan["dropped"] = True
                return {"t": "drop", "h": roots[0]}
            plan["phase"] = "exit"
            ph = "exit"
        if ph == "exit":
            if w.stack:
                if plan["mode"] == "cls":
                    return {"t": "exit"}
                # per-object contexts: any order; the class context (if any) sits at index 0
                lo = 1 if plan["mode"] == "both" and len(w.stack) > 1 else 0
                if len(w.stack) == 1:
                    return {"t": "exit"}
                ef = plan.get("exit_first")
                if ef is not None:
                    plan["exit_first"] = None
                    for i, (kind, key, _c) in enumerate(w.stack):
                        if kind == "obj" and key == roots[ef % len(roots)]:
                            return {"t": "exit_at", "i": i}
                return {"t": "exit_at", "i": draw(st.integers(lo, len(w.stack) - 1))}
            plan["phase"] = "post"
        if plan["post"] > 0:
            if not w.attached_handles():
                return {"t": "new", "r": 0, "id": w.next_id()}
            plan["post"] -= 1
            return _op(draw, w, dom)
        return None
    return g


def _op(draw, w, dom, plan=None):
    att = w.attached_handles()
    if plan is not None and plan.get("readers"):
        # objects designated read-only for this case
        pool_w = [i for i in att if w.handles[i].obj not in plan["readers"]]
        pool_r = [i for i in att if w.handles[i].obj in plan["readers"]]
        if pool_r and draw(st.integers(0, 2)) == 0:
            return gen.draw_read(draw, w, draw(st.sampled_from(pool_r)), dom, refs=False)
        att = pool_w or att
    hi = draw(st.sampled_from(att))
    if draw(st.integers(0, 9)) < 6:
        return gen.draw_mutator(draw, w, hi, dom, p_raise=1)
    return gen.draw_read(draw, w, hi, dom, refs=False)


def _analyse(w, mode):
    """Per-object roles inside the buffered phase and the flush order; is the case non-trivial?"""
    depth = 0
    touch = {}     # obj -> first buffered touch index
    reads = {}     # obj -> [indices]
    writes = {}
    exit_order = []
    for n, s in enumerate(w.log):
        t = s["t"]
        if t in ("enter_obj", "enter_cls"):
            depth += 1
        elif t in ("exit", "exit_at"):
            depth -= 1
        elif depth > 0 and t in ("op", "take"):
            h = w.handles[s["h"]]
            touch.setdefault(h.obj, n)
            if t == "op" and ops.is_mutator(h.kind, s["m"]):
                writes.setdefault(h.obj, []).append(n)
            else:
                reads.setdefault(h.obj, []).append(n)
    # flush order
    if mode == "cls":
        order = sorted(touch, key=lambda o: -touch[o])
    else:
        order = []
        st_ = []
        for s in w.log:
            if s["t"] == "enter_obj":
                st_.append(s["h"])
            elif s["t"] == "enter_cls":
                st_.append(None)
            elif s["t"] == "exit" and st_:
                x = st_.pop()
                if x is not None:
                    order.append(x)
            elif s["t"] == "exit_at" and st_:
                x = st_.pop(s["i"])
                if x is not None:
                    order.append(x)
    nt = False
    for r in reads:
        if r in writes:
            continue
        for wr, idx in writes.items():
            if any(i > min(reads[r]) for i in idx) and r in order and wr in order \
                    and order.index(r) < order.index(wr):
                nt = True
    roles = tuple(sorted(("rw" if o in reads and o in writes else "w" if o in writes else "r")
                         for o in touch))
    return nt, roles, tuple(order)


def run_shard(spec, seed, tier, active):
    ci = CLASSES[spec["cls"]]
    dom = gen.Dom(ci)
    acc = Acc()
    n = 120 if tier == "quick" else 1200
    excl = excl_of(active)

    def one(data):
        draw = data.draw
        init = draw(st.one_of(st.just(ABSENT), dom.doc(ci.kind), dom.doc(ci.kind)))
        k = draw(st.integers(2, 3))
        plan = {"mode": draw(st.sampled_from(["cls", "obj", "both"])), "k": k,
                "pre": draw(st.integers(0, 2)), "nbuf": draw(st.integers(1, 8)),
                "post": draw(st.integers(0, 2)), "phase": "pre",
                "readers": set(draw(st.lists(st.integers(0, k - 1), max_size=k - 1, unique=True)))}
        if draw(st.booleans()):
            # steer towards the shape that matters: a pure reader flushed before a later writer
            r_, w_ = draw(st.permutations(range(k)))[:2]
            plan["readers"] = {r_} if draw(st.booleans()) else plan["readers"] | {r_}
            plan["readers"].discard(w_)
            if plan["mode"] == "cls":
                plan["script"] = [("r", w_), ("r", r_), ("w", w_)]
            else:
                plan["script"] = [("r", r_), ("w", w_)]
                plan["exit_first"] = r_
        if plan["mode"] == "cls" and draw(st.integers(0, 3)) == 0:
            plan["drop_all"] = True
        if plan["mode"] in ("cls", "both") and draw(st.integers(0, 2)) == 0:
            plan["cap"] = draw(st.sampled_from([0, 1, 2, 12, 30])) if ci.buffered == "serialized" \
                else draw(st.sampled_from([0, 1]))
        if draw(st.integers(0, 4)) == 0:
            a_, b_ = draw(st.permutations(range(k)))[:2]
            plan["readers"] = set()
            plan["script"] = [("r", b_), ("aba_w1", b_), ("aba_w2", a_), ("aba_r", b_), ("w", b_)]
        w = wm.run_generated(ID, ci, [init], _gen(ci, dom, plan), draw, 40, engine="bufworld",
                             check_frozen=False, excl=excl)
        acc.excluded += w.excluded
        nt, roles, order = _analyse(w, plan["mode"])
        cnt = {f"mode={plan['mode']}": 1, f"k={k}": 1, "nontrivial_shape": int(nt),
               "small_capacity": int(plan.get("cap") is not None),
               "all_objects_dropped_before_exit": int(bool(plan.get("dropped")))}
        sample = {"class": ci.name, "mode": plan["mode"], "initial": repr(init), "steps": w.log[:18]} if nt else None
        acc.case([h64(ci.name, plan["mode"], k, roles, len(order))] + [h64(ci.name, plan["mode"], w.log)] if nt else (), sample, cnt)

    fail = hyp_search(one, n, seed)
    if fail is not None:
        acc.failures.append(wm.minimize_world(fail))
    return acc.result()


def coverage_extra(tier, results):
    ev = sum(r["evaluations"] for r in results)
    nt = sum(r["counters"].get("nontrivial_shape", 0) for r in results)
    frac = nt / max(1, ev)
    return {"fraction_reader_flushed_before_writer": round(frac, 3)}


def replay(case):
    return wm.replay_world(case)
