"""C07: a buffered flush never silently overwrites a file changed by someone else."""
import copy
import itertools
import os
import shutil

from hypothesis import strategies as st

from .. import wm
from ..classes import ABSENT, BUFFERED, CLASSES, JsonRes, reset_class_state
from ..plain import h64
from ..runner import Acc, CaseFailure, hyp_search, minimize
from ..world import Mismatch
from synced_collections.errors import BufferedError, MetadataError

ID = "C07"
LEVEL = "exploration"
ROLES = ["modified", "readonly", "untouched"]
CHANGES = ["before", "after", "never"]
CTX = ["obj", "cls", "cls_cap", "forced_setcap", "forced_op"]
RULE = ("Generated scenarios (Hypothesis; exhaustive product for n<=2 files in the thorough tier): "
        "buffered class (8) x context kind {per-object contexts, backend-wide context, backend-wide "
        "with a capacity argument, capacity-forced flush via set_buffer_capacity, capacity-forced "
        "flush via an overflowing operation} x n in 1..4 files, each with a role {modified, read-only, "
        "untouched}, an initial state {existing, absent: the outside change then CREATES it} and an outside "
        "change {before its first buffered access, after it, never}; access "
        "order, position of the 'after' change and exit order are generated; an enumerated sub-family "
        "uses a file name that is a SYMBOLIC LINK whose target the outside writer changes; a quarter of the "
        "modifications start with a destructive root operation (clear() / reset([])) that re-binds "
        "the container - before the outside change, or AFTER it on a file that is already buffered (the exit "
        "must then refuse); a file may have a SECOND "
        "object bound to it that only reads (so two collections are registered for one buffer entry); a "
        "file that was only read before a forced flush may be modified after it. The outside writer always "
        "changes (size, mtime_ns). Oracle: conflict set = modified AND changed-after; a per-object "
        "exit raises MetadataError exactly for conflicting files; the backend-wide exit (or the "
        "forcing call) raises BufferedError whose .files are exactly the conflict set and nothing if it "
        "is empty; conflicting files keep the outside bytes; read-only files never raise and are never "
        "written; clean modified files hold their new content; afterwards buffer size 0, capacity as "
        "before, backend not buffered, every object shows what is on disk, and a second buffered "
        "session on the same files works and persists. Non-trivial = a conflicting and a clean "
        "modified file in one flush, or a read-only file changed outside; distinct by (class, context "
        "kind, role/change vector, order).")
ASSUMPTIONS = [
    "an outside writer that preserves both size and mtime_ns is undetectable by the documented mechanism "
    "and is not generated",
    "'changed before the first buffered access' is not a conflict (the buffer loaded the new content)",
]


def shards(tier):
    reps = 2 if tier == "quick" else 10
    s = [{"cls": c.name, "rep": r, "mode": "random"} for c in BUFFERED for r in range(reps)]
    if tier == "thorough":
        s += [{"cls": c.name, "rep": 0, "mode": "exhaustive"} for c in BUFFERED]
    return s


def _init_doc(kind, i):
    return {"k": i, "n": {"x": [i]}} if kind == "dict" else [i, {"x": [i]}]


def _outside_doc(kind, i, tag):
    return {"outside": [tag, i, "xxxxxxxxxxxxxxxx"]} if kind == "dict" else ["outside", tag, i, "xxxxxxxxxxxxxxxx"]


def _mutate(obj, kind, i, rebind=False):
    if rebind:
        # a destructive root operation first: clear() / a shorter reset() re-bind the container
        if kind == "dict":
            obj.clear()
        else:
            obj.reset([])
    if kind == "dict":
        obj["new"] = {"v": i}
    else:
        obj.append({"v": i})


def _mutated(doc, kind, i, rebind=False):
    d = copy.deepcopy(doc)
    if rebind:
        d = {} if kind == "dict" else []
    if kind == "dict":
        d["new"] = {"v": i}
    else:
        d.append({"v": i})
    return d


def _read(obj, kind):
    return obj()


def run_case(case):
    """Execute one scenario; raise Mismatch on a violation."""
    ci = CLASSES[case["class"]]
    cls = ci.cls
    kind = ci.kind
    ctxk = case["ctx"]
    files = case["files"]
    d = wm.case_dir()
    reset_class_state()
    try:
        res, objs, model, expect_disk = [], [], [], []
        for i, f in enumerate(files):
            r = JsonRes(os.path.join(d, f"f{i}.json"))
            if f.get("absent"):
                # the file does not exist when it enters the buffer; an outside change creates it
                init = {} if kind == "dict" else []
            else:
                init = _init_doc(kind, i)
                r.write(copy.deepcopy(init))
            res.append(r)
            objs.append(cls(filename=r.path))
            model.append(init)
        # a second object on the same file, registered with the buffer by a read (class-wide kinds)
        twins = {i: cls(filename=res[i].path) for i, f in enumerate(files)
                 if f.get("twin") and ctxk != "obj" and f["role"] != "untouched"}
        if ctxk == "cls_cap" and case.get("outer_cap") is not None:
            # the class-wide capacity in force around the context is small
            cls.set_buffer_capacity(case["outer_cap"])
        cap0 = cls.get_buffer_capacity()
        n = len(files)
        forced = ctxk.startswith("forced")
        # ---- enter
        ctxs = []
        if ctxk == "obj":
            for o in objs:
                c = o.buffered
                c.__enter__()
                ctxs.append(c)
        elif ctxk == "cls_cap":
            c = cls.buffer_backend(case.get("cap", 10**9))
            c.__enter__()
            ctxs.append(c)
        else:
            c = cls.buffer_backend()
            c.__enter__()
            ctxs.append(c)
        # ---- outside changes 'before', accesses, outside changes 'after'
        disk = [ABSENT if files[i].get("absent") else copy.deepcopy(m) for i, m in enumerate(model)]
        conflict = set()
        written_expected = set()
        stats_ro = {}
        for i, f in enumerate(files):
            if f["change"] == "before":
                disk[i] = _outside_doc(kind, i, "before")
                res[i].write(copy.deepcopy(disk[i]))
                model[i] = copy.deepcopy(disk[i])
        order = sorted(range(n), key=lambda i: (files[i].get("rank", i), i))
        pending_after = []
        for i in order:
            f = files[i]
            if f["role"] == "modified":
                if f.get("read_first"):
                    got = _read(objs[i], kind)
                    if got != model[i]:
                        raise Mismatch("buffered_read", file=i, got=got, expected=model[i])
                _mutate(objs[i], kind, i, rebind=bool(f.get("rebind")))
                model[i] = _mutated(model[i], kind, i, rebind=bool(f.get("rebind")))
            elif f["role"] == "readonly":
                got = _read(objs[i], kind)
                if got != model[i]:
                    raise Mismatch("buffered_read", file=i, got=got, expected=model[i])
            if i in twins and f["role"] != "untouched":
                got = _read(twins[i], kind)
                if got != model[i]:
                    raise Mismatch("buffered_read_through_second_object", file=i, got=got, expected=model[i])
            if f["change"] == "after" and f["role"] != "untouched":
                if f.get("late"):
                    pending_after.append(i)
                else:
                    disk[i] = _outside_doc(kind, i, "after")
                    res[i].write(copy.deepcopy(disk[i]))
        for i in pending_after:
            disk[i] = _outside_doc(kind, i, "after")
            res[i].write(copy.deepcopy(disk[i]))
        if not forced:
            for i in range(n):
                f = files[i]
                if not f.get("rebind_late") or f["role"] not in ("modified", "readonly"):
                    continue
                # AFTER the outside change a destructive root operation (re-binding the container)
                # and a write: the buffered copy predates the outside change, so the exit must refuse
                _mutate(objs[i], kind, 3000 + i, rebind=True)
                model[i] = _mutated(model[i], kind, 3000 + i, rebind=True)
                files = [dict(x) for x in files]
                files[i]["role"] = "modified"
        for i, f in enumerate(files):
            if f["change"] == "after" and f["role"] == "untouched":
                # never entered the buffer: an outside change is just the file's content
                disk[i] = _outside_doc(kind, i, "after")
                res[i].write(copy.deepcopy(disk[i]))
                model[i] = copy.deepcopy(disk[i])
            if f["role"] == "modified" and f["change"] == "after":
                conflict.add(i)
            if f["role"] == "readonly":
                stats_ro[i] = (res[i].raw(), res[i].stat())
        conflict_paths = {os.path.realpath(res[i].path) for i in conflict}

        def check_files(keys, where):
            got = {os.path.realpath(k) for k in keys}
            if got != conflict_paths:
                raise Mismatch("wrong_conflict_set", where=where,
                               got=sorted(os.path.basename(x) for x in got),
                               expected=sorted(os.path.basename(x) for x in conflict_paths))

        # ---- forced flush
        conflict_done = set()
        alt = {}   # file -> content if the forcing op (which raised) did not apply its own change
        if forced:
            err = None
            try:
                if ctxk == "forced_setcap":
                    cls.set_buffer_capacity(0)
                else:
                    cls.set_buffer_capacity(cls.get_current_buffer_size())
                    trig = case.get("trigger", 0) % n
                    was = files[trig]
                    if was["role"] != "modified":
                        files = [dict(f) for f in files]
                        files[trig]["role"] = "modified"
                        stats_ro.pop(trig, None)
                        if was["role"] == "readonly" and was["change"] == "after":
                            # it entered the buffer before the outside change and is written now
                            conflict.add(trig)
                            conflict_paths.add(os.path.realpath(res[trig].path))
                    alt[trig] = copy.deepcopy(model[trig])
                    model[trig] = _mutated(model[trig], kind, 1000 + trig)
                    _mutate(objs[trig], kind, 1000 + trig)
                    alt.pop(trig)  # the op returned: its change must persist
            except BufferedError as e:
                err = e
            except MetadataError as e:
                raise Mismatch("forced_flush_raised_metadata_error", error=str(e))
            finally:
                cls.set_buffer_capacity(cap0)   # undo *our* explicit capacity change
            did_force = err is not None or cls.get_current_buffer_size() == 0
            if err is not None:
                if not conflict:
                    raise Mismatch("spurious_buffered_error", where="forced flush",
                                   files=sorted(os.path.basename(k) for k in err.files))
                check_files(err.files.keys(), "forced flush")
                # the forced flush has dealt with the conflicting entries: the outside content wins
                conflict_done = set(conflict)
                conflict = set()
                conflict_paths = set()
            # err is None with conflicts pending = no flush was forced (nothing over capacity):
            # the exit below must then report them.
            # ---- modifications made AFTER the forced flush, still inside the context
            for i in range(n):
                f = files[i]
                if not f.get("modify_after_force") or i in conflict_done or f["role"] != "readonly":
                    continue
                # the file entered the buffer by a read; if it was changed outside after that, a
                # write now must make the exit report it (the forced flush wrote nothing for it)
                # serialized strategy: both forcing kinds always overflow here (set capacity 0 with
                # buffered files / capacity == current size followed by a growing write), and an
                # overflow drops every entry
                evicted = ci.buffered == "serialized"
                if evicted and f["change"] == "after":
                    # the serialized strategy drops every entry in a forced flush: the file re-enters
                    # the buffer now, with the outside writer's content - no conflict
                    model[i] = copy.deepcopy(disk[i])
                model[i] = _mutated(model[i], kind, 2000 + i)
                try:
                    _mutate(objs[i], kind, 2000 + i)
                except BufferedError:
                    pass
                files = [dict(x) for x in files]
                files[i]["role"] = "modified"
                stats_ro.pop(i, None)
                if f["change"] == "after" and not evicted:
                    # shared-memory strategy (entries survive a forced flush) or no flush was forced:
                    # the buffered copy predates the outside change and is modified now
                    conflict.add(i)
                    conflict_paths.add(os.path.realpath(res[i].path))
        # ---- exit
        raised = {}
        if ctxk == "obj":
            xo = sorted(range(n), key=lambda i: (files[i].get("xrank", i), i))
            for i in xo:
                try:
                    ctxs[i].__exit__(None, None, None)
                except MetadataError:
                    raised[i] = "MetadataError"
                except Exception as e:  # noqa: BLE001
                    raise Mismatch("exit_raised_other", file=i, error=f"{type(e).__name__}: {e}")
            if set(raised) != conflict:
                raise Mismatch("wrong_metadata_errors", got=sorted(raised), expected=sorted(conflict))
        else:
            try:
                ctxs[0].__exit__(None, None, None)
                if conflict:
                    raise Mismatch("no_error_for_conflict", expected=sorted(conflict))
            except BufferedError as e:
                if not conflict:
                    raise Mismatch("spurious_buffered_error", where="exit",
                                   files=sorted(os.path.basename(k) for k in e.files))
                check_files(e.files.keys(), "exit")
            except Mismatch:
                raise
            except Exception as e:  # noqa: BLE001
                raise Mismatch("exit_raised_other", error=f"{type(e).__name__}: {e}")
        # ---- after the contexts
        for i in range(n):
            got = res[i].read()
            if disk[i] is ABSENT and got is ABSENT and files[i]["role"] != "modified":
                continue   # never created by anybody: fine
            if i in conflict or i in conflict_done:
                if got != disk[i]:
                    raise Mismatch("outside_content_overwritten", file=i, got=got, expected=disk[i])
            elif files[i]["role"] == "modified":
                empty = {} if kind == "dict" else []
                if i in alt and alt[i] == empty and got is ABSENT:
                    continue   # the forcing op raised before applying its change; the file was never created
                if got != model[i] and not (i in alt and got == alt[i]):
                    raise Mismatch("clean_file_not_written", file=i, got=got, expected=model[i])
            else:
                if got != disk[i]:
                    raise Mismatch("untouched_or_readonly_changed", file=i, got=got, expected=disk[i])
            if i in stats_ro and (res[i].raw(), res[i].stat()) != stats_ro[i]:
                raise Mismatch("readonly_file_written", file=i)
        if cls.get_current_buffer_size() != 0:
            raise Mismatch("buffer_size_nonzero", size=cls.get_current_buffer_size())
        if cls.get_buffer_capacity() != cap0:
            raise Mismatch("capacity_not_restored", got=cls.get_buffer_capacity(), expected=cap0)
        if cls.backend_is_buffered():
            raise Mismatch("backend_still_buffered")
        if case.get("observe_between", True):
            for i in range(n):
                now = res[i].read()
                got = objs[i]()
                if now is ABSENT:
                    now = {} if kind == "dict" else []
                if got != now:
                    raise Mismatch("object_differs_from_disk", file=i, got=got, expected=now)
        # ---- second session: no stale entry may bite
        try:
            with cls.buffer_backend():
                for i in range(n):
                    before = objs[i]()
                    on_disk = res[i].read()
                    if on_disk is ABSENT:
                        on_disk = {} if kind == "dict" else []
                    if before != on_disk:
                        raise Mismatch("second_session_stale_read", file=i, got=before,
                                       expected=on_disk)
                    _mutate(objs[i], kind, 77)
        except (BufferedError, MetadataError) as e:
            raise Mismatch("second_session_spurious_error", error=f"{type(e).__name__}: {e}"[:200])
        for i in range(n):
            exp = _mutated(objs[i]() if False else res[i].read(), kind, 77) if False else None
            got = res[i].read()
            tail = got.get("new") if kind == "dict" else (got[-1] if got else None)
            if tail != {"v": 77}:
                raise Mismatch("second_session_not_persisted", file=i, got=got)
        if cls.get_current_buffer_size() != 0:
            raise Mismatch("buffer_size_nonzero_after_second_session",
                           size=cls.get_current_buffer_size())
    finally:
        reset_class_state()
        shutil.rmtree(d, ignore_errors=True)


def run_symlink_case(case):
    """The collection's file name is a SYMBOLIC LINK; the outside writer changes the file it points
    to. variant: 'conflict' (buffered modification, then outside change: the exit must refuse),
    'readonly' (read, outside change: nothing written, no error), 'before' (outside change before
    the first buffered access: no conflict, the modification becomes visible under the name)."""
    ci = CLASSES[case["class"]]
    cls, kind = ci.cls, ci.kind
    variant, ctxk = case["variant"], case["ctx"]
    d = wm.case_dir()
    reset_class_state()
    try:
        real = JsonRes(os.path.join(d, "real.json"))
        init = _init_doc(kind, 0)
        real.write(copy.deepcopy(init))
        link = os.path.join(d, "link.json")
        os.symlink(real.path, link)
        named = JsonRes(link)          # what a reader of the collection's file name sees
        obj = cls(filename=link)
        outside = _outside_doc(kind, 0, variant)
        ctx = obj.buffered if ctxk == "obj" else cls.buffer_backend()
        ctx.__enter__()
        err = None
        try:
            if variant == "before":
                real.write(copy.deepcopy(outside))
                _mutate(obj, kind, 5)
                expect = _mutated(outside, kind, 5)
            elif variant == "conflict":
                if case.get("read_first"):
                    obj()
                _mutate(obj, kind, 5)
                real.write(copy.deepcopy(outside))
                expect = outside
            else:
                got = obj()
                if got != init:
                    raise Mismatch("buffered_read", got=got, expected=init)
                real.write(copy.deepcopy(outside))
                expect = outside
        finally:
            try:
                ctx.__exit__(None, None, None)
            except (BufferedError, MetadataError) as e:
                err = e
        if variant == "conflict" and err is None:
            raise Mismatch("no_error_for_conflict", variant=variant, symlink=True)
        if variant != "conflict" and err is not None:
            raise Mismatch("spurious_buffered_error", where="exit", symlink=True,
                           error=f"{type(err).__name__}: {err}"[:160])
        got = named.read()
        if got != expect:
            raise Mismatch("outside_content_overwritten" if variant != "before" else "clean_file_not_written",
                           symlink=True, got=got, expected=expect)
        if variant != "before" and real.read() != outside:
            raise Mismatch("outside_content_overwritten", symlink=True, target=True, got=real.read(),
                           expected=outside)
        if cls.get_current_buffer_size() != 0:
            raise Mismatch("buffer_size_nonzero", size=cls.get_current_buffer_size())
    finally:
        reset_class_state()
        shutil.rmtree(d, ignore_errors=True)


def _fails(case):
    if case.get("symlink"):
        try:
            run_symlink_case(copy.deepcopy(case))
        except Mismatch as mm:
            return mm.describe()
        return None
    try:
        run_case(copy.deepcopy(case))
    except Mismatch as mm:
        return mm.describe()
    return None


def _nt(case):
    fs = case["files"]
    conf = [f for f in fs if f["role"] == "modified" and f["change"] == "after"]
    clean = [f for f in fs if f["role"] == "modified" and f["change"] != "after"]
    ro = [f for f in fs if f["role"] == "readonly" and f["change"] != "never"]
    return bool((conf and clean) or ro)


def _vector(case):
    return (case["class"], case["ctx"], tuple((f["role"], f["change"], f.get("rank", 0), f.get("xrank", 0),
                                                bool(f.get("late")), bool(f.get("read_first")), bool(f.get("absent")),
                                                bool(f.get("twin")), bool(f.get("modify_after_force")))
                                               for f in case["files"]), case.get("trigger", 0), case.get("outer_cap"))


def _draw_case(draw, cname):
    n = draw(st.integers(1, 4))
    files = []
    for i in range(n):
        files.append({
            "role": draw(st.sampled_from(ROLES + ["modified"])),
            "change": draw(st.sampled_from(CHANGES + ["after"])),
            "rank": draw(st.integers(0, 3)),
            "xrank": draw(st.integers(0, 3)),
            "late": draw(st.booleans()),
            "read_first": draw(st.booleans()),
            "absent": draw(st.integers(0, 3)) == 0,
            "twin": draw(st.integers(0, 3)) == 0,
            "modify_after_force": draw(st.integers(0, 2)) == 0,
            "rebind": draw(st.integers(0, 3)) == 0,
            "rebind_late": draw(st.integers(0, 3)) == 0,
        })
    return {"property": ID, "engine": "c07", "class": cname, "ctx": draw(st.sampled_from(CTX)),
            "files": files, "trigger": draw(st.integers(0, 3)), "cap": draw(st.sampled_from([10**9, 10**6])),
            "observe_between": draw(st.booleans()),
            "outer_cap": draw(st.sampled_from([None, None, 0, 1, 40]))}


def run_shard(spec, seed, tier, active):
    acc = Acc()
    cname = spec["cls"]

    def record(case):
        nt = _nt(case)
        acc.case([h64(_vector(case))] if nt else (), case if nt else None,
                 {f"ctx={case['ctx']}": 1, f"n={len(case['files'])}": 1})

    def attempt(case):
        try:
            run_case(copy.deepcopy(case))
        except Mismatch as mm:
            raise CaseFailure(case, mm.describe())
        record(case)

    fail = None
    if spec.get("rep", 0) == 0 and spec["mode"] == "random":
        # enumerated: the file name is a symbolic link and the outside writer changes its target
        for ctx in ("obj", "cls"):
            for variant in ("conflict", "readonly", "before"):
                for rf in ((False, True) if variant == "conflict" else (False,)):
                    case = {"property": ID, "engine": "c07", "class": cname, "symlink": True, "ctx": ctx,
                            "variant": variant, "read_first": rf}
                    d = _fails(case)
                    acc.case([h64("symlink", cname, ctx, variant, rf)], case if len(acc.samples) < 1 else None,
                             {"symlink_cases": 1})
                    if d is not None and not acc.failures:
                        acc.failures.append({"case": case, "desc": d})
    if spec["mode"] == "exhaustive":
        try:
            for ctx in CTX:
                for n in (1, 2):
                    for combo in itertools.product(itertools.product(ROLES, CHANGES, (False, True), (False, True)), repeat=n):
                        for order in ([0], [0, 1], [1, 0])[: (1 if n == 1 else 3)]:
                            if n == 1 and order != [0]:
                                continue
                            files = [{"role": r, "change": c, "late": l, "rank": order.index(i) if i < len(order) else i,
                                      "xrank": (n - 1 - i), "read_first": False, "absent": ab}
                                     for i, (r, c, l, ab) in enumerate(combo)]
                            attempt({"property": ID, "engine": "c07", "class": cname, "ctx": ctx,
                                     "files": files, "trigger": 0, "cap": 10**9,
                                     "observe_between": False})
            acc.extra["exhaustive_n_le_2"] = True
        except CaseFailure as f:
            fail = f
    else:
        n = 500 if tier == "quick" else 4000
        fail = hyp_search(lambda data: attempt(_draw_case(data.draw, cname)), n, seed)
    if fail is not None:
        case, desc = minimize(fail.case, _fails, key="files", budget=60)
        acc.failures.append({"case": case, "desc": desc or fail.desc})
    return acc.result()


def replay(case):
    return _fails(case)
