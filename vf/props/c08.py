"""C08: a crash during a save leaves each JSON file wholly old or wholly new."""
import copy
import decimal
import json
import os
import shutil

from hypothesis import strategies as st

from .. import crash, env, gen, ops
from ..classes import ABSENT, CLASSES, JSON_ALL, HarnessError, JsonRes, reset_class_state
from ..plain import dec, enc, h64
from ..runner import Acc, CaseFailure, hyp_search
from synced_collections.backends.collection_json import JSONDict, JSONList

ID = "C08"
LEVEL = "fault_enumeration"
RULE = ("Hypothesis-generated scenarios: JSON class (12) x write configuration {write_concern=True & "
        "threading on, write_concern=True & threading off, write_concern=False & threading on, write_concern=False & object created while threading was "
        "off then threading switched on} x "
        "initial content (absent / generated document, up to several KB) x {one mutating operation | "
        "flush of 1-3 modified buffered files by per-object exit, backend-wide exit or a "
        "capacity-forced flush, both strategies}, plus per class scenarios whose first file has a base "
        "name of NAME_MAX-{0,5,20,38,39,40} characters (around the point where the sibling temporary "
        "file of the atomic mode cannot be created; a save that then FAILS is crashed at every point "
        "too and must leave the file wholly old), or whose first file name is a SYMBOLIC LINK to the real "
        "file; after every crash a new object also performs a (much shorter) save, which must leave "
        "valid JSON. For each scenario the un-crashed run is measured in "
        "a forked child (N executed library lines, M file-system events open/rename/remove/truncate, "
        "write calls and sizes) and then EVERY crash point is executed in its own forked child that "
        "dies with os._exit (no cleanup, no flushing of Python buffers): before each of the N lines "
        "and after the last, before each of the M file-system calls, and after a prefix of the bytes "
        "of each write() (every prefix up to 64 bytes, 24 spread prefixes beyond). Oracle (parent): "
        "each target file's raw bytes are exactly the bytes before the operation (or absent if it did "
        "not exist) or exactly the bytes of the completed operation - never empty/truncated/mixed; a "
        "fresh collection object opens it and () equals the matching state. Second part: content that "
        "passes validation but cannot be serialized (10**5000; object()/Decimal through a "
        "validator-less subclass family) in ALL four write configurations: the operation raises, "
        "bytes and inode are unchanged, a fresh object opens the file. Non-trivial = crash point "
        "inside the I/O window (after the first and before the last file-system event) or a "
        "byte-prefix point; distinct by (scenario, point).")
ASSUMPTIONS = [
    "process death is modelled by os._exit in a forked child (same observable effect as SIGKILL); power "
    "loss / fsync are out of scope; rename atomicity of the kernel and tmpfs is trusted",
    "leftover '._<uuid>_name' temp files are allowed (the property is about the target)",
    "(write_concern=False, threading off) is non-atomic by documentation and only used in the "
    "unserializable-content part",
]

# threading == "toggled": the object is created while threading support is switched off and
# threading is switched on again before the save (atomic mode is in effect at the time of the save)
CONFIGS = [(True, True), (True, False), (False, True), (False, "toggled")]


def _name_max():
    import tempfile
    base = "/dev/shm" if os.path.isdir("/dev/shm") and os.access("/dev/shm", os.W_OK) else tempfile.gettempdir()
    try:
        return min(255, os.pathconf(base, "PC_NAME_MAX"))
    except (OSError, ValueError):
        return 255


NAME_MAX = _name_max()


class NVDict(JSONDict):
    """Validator-less family: lets unserializable values reach the encoder."""
    _backend = "vf.c08.novalidate"
    _all_validators = ()


class NVList(JSONList):
    _backend = "vf.c08.novalidate"
    _all_validators = ()


def shards(tier):
    reps = 1 if tier == "quick" else 6
    s = [{"cls": c.name, "rep": r, "mode": "crash"} for c in JSON_ALL for r in range(reps)]
    s += [{"cls": c.name, "rep": r, "mode": "crash", "longname": True} for c in JSON_ALL
          for r in range(max(1, reps // 3))]
    s += [{"cls": c.name, "mode": "unser"} for c in JSON_ALL]
    return s


# ------------------------------------------------------------------ scenario execution


def _paths(d, n, namelen=None):
    if namelen == "symlink":
        # file 0 is reached through a symbolic link (created by _write_initial)
        return [os.path.join(d, "link0.json")] + [os.path.join(d, f"f{i}.json") for i in range(1, n)]
    if namelen:
        # file 0 gets a base name of exactly ``namelen`` characters (near NAME_MAX the sibling
        # temporary file of the atomic-replace mode cannot be created)
        first = "f0_" + "n" * (namelen - 8) + ".json"
        return [os.path.join(d, first)] + [os.path.join(d, f"f{i}.json") for i in range(1, n)]
    return [os.path.join(d, f"f{i}.json") for i in range(n)]


def _write_initial(d, sc):
    for i, (p, init) in enumerate(zip(_paths(d, len(sc["init"]), sc.get("namelen")), sc["init"])):
        if sc.get("namelen") == "symlink" and i == 0:
            real = os.path.join(d, "real0.json")
            if init != "$ABSENT":
                with open(real, "wb") as f:
                    f.write(json.dumps(dec(init)).encode())
            os.symlink(real, p)
            continue
        if init != "$ABSENT":
            with open(p, "wb") as f:
                f.write(json.dumps(dec(init)).encode())


def _snapshot(d, n, namelen=None):
    out = []
    for p in _paths(d, n, namelen):
        try:
            with open(p, "rb") as f:
                out.append(f.read())
        except FileNotFoundError:
            out.append(None)
    return out


def make_setup(sc, d, cls=None):
    ci = CLASSES.get(sc["class"])
    cls = cls or ci.cls

    def setup():
        reset_class_state()
        if not sc["threading"] or sc["threading"] == "toggled":
            cls.disable_multithreading()
        objs = [cls(filename=p, write_concern=sc["wc"]) for p in _paths(d, len(sc["init"]), sc.get("namelen"))]
        if sc["threading"] == "toggled":
            cls.enable_multithreading()
        st8 = {"objs": objs, "ctxs": []}
        kind = sc["kind"]
        if kind.startswith("flush"):
            if kind == "flush_obj":
                for o in objs:
                    c = o.buffered
                    c.__enter__()
                    st8["ctxs"].append(c)
            else:
                c = cls.buffer_backend()
                c.__enter__()
                st8["ctxs"].append(c)
            for i, o in enumerate(objs):
                for m in sc["mods"][i]:
                    ops.real_apply(o, sc["kind_of_root"], m["m"], dec(m["a"]), {})
        return st8
    return setup


def make_action(sc, cls=None):
    ci = CLASSES.get(sc["class"])
    cls = cls or ci.cls

    def action(st8):
        kind = sc["kind"]
        if kind == "op":
            out = ops.real_apply(st8["objs"][0], sc["kind_of_root"], sc["op"]["m"], dec(sc["op"]["a"]), {})
            if not out.ok:
                raise RuntimeError("operation raised: " + str(out.detail))
        elif kind == "flush_obj":
            for c in st8["ctxs"]:
                c.__exit__(None, None, None)
        elif kind == "flush_cls":
            st8["ctxs"][0].__exit__(None, None, None)
        elif kind == "flush_forced":
            cls.set_buffer_capacity(-1)
    return action


def points(meas, tier):
    pts = [("line", k, None) for k in range(1, meas["lines"] + 2)]
    pts += [("io", k, None) for k in range(1, len(meas["ios"]) + 1)]
    for w, (_p, L) in enumerate(meas["writes"], 1):
        if L <= 64:
            js = range(0, L + 1)
        else:
            js = sorted(set([0, 1, 2, L - 2, L - 1, L] + [L * i // 20 for i in range(1, 20)]))
        pts += [("write", w, j) for j in js]
    return pts


def run_scenario(sc, base, acc=None, tier="quick", cls=None, only_point=None):
    """Measure, then crash at every point. Returns a failure description or None."""
    n = len(sc["init"])
    ci = CLASSES.get(sc["class"])
    cls = cls or ci.cls
    d0 = os.path.join(base, "measure")
    shutil.rmtree(d0, ignore_errors=True)
    os.mkdir(d0)
    _write_initial(d0, sc)
    nl = sc.get("namelen")
    old = _snapshot(d0, n, nl)
    rc, meas = crash.run_child(make_setup(sc, d0, cls), make_action(sc, cls), None)
    if rc != 0 or meas is None:
        raise HarnessError("measurement run crashed")
    new = _snapshot(d0, n, nl)
    if meas["error"]:
        # the un-crashed operation itself fails (e.g. the temporary file cannot be created): only
        # a failed save that left every file as it was is a scenario here - a crash anywhere in
        # the failing attempt must leave the files wholly old as well
        if new != old or not meas["ios"]:
            return "skip"
        if acc is not None:
            acc.counters["scenarios_with_failing_save"] += 1
            acc.counters["failing_save." + str(meas["error"]).split(":")[0] + (".longname" if nl else "")] += 1
    elif new == old:
        return "skip"   # nothing is written: no save to crash
    for b in new:
        if b is not None:
            json.loads(b)
    if tier == "quick" and meas["lines"] > 1500:
        return "skip"
    # where is the I/O window (in line counts)?
    pts = points(meas, tier) if only_point is None else [tuple(only_point)]
    nlines = meas["lines"]
    fail = None
    sh = h64(sc)
    for (kind, k, j) in pts:
        d = os.path.join(base, "pt")
        shutil.rmtree(d, ignore_errors=True)
        os.mkdir(d)
        _write_initial(d, sc)
        rc, m2 = crash.run_child(make_setup(sc, d, cls), make_action(sc, cls), (kind, k, j))
        got = _snapshot(d, n, nl)
        crashed = rc == 137
        bad = None
        for i in range(n):
            if got[i] == old[i] or got[i] == new[i]:
                continue
            bad = {"what": "file_neither_old_nor_new", "file": i, "point": [kind, k, j],
                   "len_got": None if got[i] is None else len(got[i]),
                   "len_old": None if old[i] is None else len(old[i]),
                   "len_new": None if new[i] is None else len(new[i]),
                   "got_head": None if got[i] is None else got[i][:60].decode("utf-8", "replace"),
                   "crashed": crashed}
            break
        if bad is None and crashed:
            # a new collection object must open every file normally
            for i, p in enumerate(_paths(d, n, nl)):
                try:
                    reset_class_state()
                    v = cls(filename=p)()
                    exp = got[i]
                    if exp is not None and v != json.loads(exp):
                        bad = {"what": "fresh_object_differs", "file": i, "point": [kind, k, j]}
                    elif i == 0 and bad is None:
                        # ... and the next (much shorter) save by a new object works: whatever the
                        # crashed process left lying around must not end up in the file
                        o2 = cls(filename=p)
                        try:
                            o2.clear()
                        except OSError:
                            continue      # (a name too long for the temporary file: the save cannot work)
                        with open(p, "rb") as fh:
                            after = fh.read()
                        if json.loads(after) != ({} if ci.kind == "dict" else []):
                            bad = {"what": "save_after_crash_damaged_file", "file": i, "point": [kind, k, j],
                                   "after": after[:80].decode("utf-8", "replace")}
                except Exception as e:  # noqa: BLE001
                    bad = {"what": "fresh_object_cannot_open", "file": i, "point": [kind, k, j],
                           "error": f"{type(e).__name__}: {e}"[:160]}
                    break
        if acc is not None:
            in_window = kind != "line" or (meas["ios"] and meas["io_lines"][0] < k <= meas["io_lines"][-1]) \
                if "io_lines" in meas else kind != "line"
            acc.case([h64(sh, kind, k, j)] if (kind in ("io", "write") or in_window) and crashed else (),
                     None, {"points." + kind: 1, "crashed": int(crashed)})
        if bad is not None and fail is None:
            fail = bad
            if acc is None or True:
                break
    if acc is not None:
        acc.counters["scenarios"] += 1
        acc.counters["scenario." + sc["kind"]] += 1
        acc.counters[f"config.wc={sc['wc']},threading={sc['threading']}"] += 1
        if len(acc.samples) < 4:
            acc.samples.append({"scenario": sc, "lines": nlines, "fs_events": meas["ios"],
                                "writes": meas["writes"], "crash_points": len(pts)})
    return fail


# ------------------------------------------------------------------ generation


def draw_scenario(draw, ci, longname=False):
    dom = gen.Dom(ci)
    wc, th = draw(st.sampled_from(CONFIGS))
    kind = draw(st.sampled_from(["op", "op", "flush_obj", "flush_cls", "flush_forced"])) if ci.buffered else "op"
    nfiles = 1 if kind == "op" else draw(st.integers(1, 3))
    big = draw(st.integers(0, 3)) == 0
    init = []
    for _ in range(nfiles):
        if draw(st.integers(0, 4)) == 0:
            init.append("$ABSENT")
        else:
            doc = draw(dom.doc(ci.kind))
            if big:
                pad = ["x" * 50] * draw(st.integers(50, 200))   # several KB: multi-chunk writes
                if ci.kind == "dict":
                    doc["pad"] = pad
                else:
                    doc.append(pad)
            init.append(enc(doc))
    sc = {"class": ci.name, "wc": wc, "threading": th, "init": init, "kind": kind,
          "kind_of_root": ci.kind}
    if longname:
        # base-name length around the point where '._<uuid4>_<name>' exceeds NAME_MAX - or a file
        # name that is a symbolic link to the real file
        sc["namelen"] = draw(st.sampled_from(["symlink", "symlink"] + [NAME_MAX - x for x in (0, 5, 20, 38, 38, 39, 40)]))
    mut = (lambda i: {"m": "setitem", "a": enc([f"k{i}", draw(dom.values(4))])}) if ci.kind == "dict" else \
        (lambda i: {"m": "append", "a": enc([draw(dom.values(4))])})
    if kind == "op":
        m = draw(st.sampled_from(["setitem", "update", "clear", "reset", "delitem", "pop"] if ci.kind == "dict"
                                 else ["append", "extend", "clear", "reset", "insert", "reverse"]))
        if m in ("setitem", "append"):
            op = mut(0)
        elif m == "update":
            op = {"m": m, "a": enc([draw(dom.dicts(3))])}
        elif m == "reset":
            op = {"m": m, "a": enc([draw(dom.dicts(3)) if ci.kind == "dict" else draw(dom.lists(3))])}
        elif m == "extend":
            op = {"m": m, "a": enc([draw(dom.lists(3))])}
        elif m == "insert":
            op = {"m": m, "a": enc([0, draw(dom.values(3))])}
        elif m in ("delitem", "pop"):
            op = {"m": "setitem", "a": enc(["zz", 1])}
        else:
            op = {"m": m, "a": []}
        sc["op"] = op
    else:
        sc["mods"] = [[mut(i)] + ([mut(10 + i)] if draw(st.booleans()) else []) for i in range(nfiles)]
    return sc


def unser_cases(ci):
    """Content that validates but cannot be serialized, in all four write configurations."""
    out = []
    big = 10 ** 5000
    for wc in (True, False):
        for th in (True, False):
            for init in ("$ABSENT", enc({"a": 1} if ci.kind == "dict" else [1, 2])):
                # "hard_text": strings a careless encoder cannot write (lone surrogates, e.g. from
                # os.fsdecode of undecodable bytes) - accepted today; if ever rejected at write time,
                # then without damage
                vals = [("bigint", big, None), ("hard_text", None, None)]
                if ci.name in ("JSONDict", "JSONList"):
                    vals += [("object", "OBJECT", "nv"), ("decimal", "DECIMAL", "nv"),
                             ("nested_object", "NESTED", "nv")]
                for name, v, fam in vals:
                    for m in (["setitem", "update", "reset"] if ci.kind == "dict" else ["append", "extend", "reset"]):
                        out.append({"class": ci.name, "wc": wc, "threading": th, "init": [init],
                                    "kind": "unser", "kind_of_root": ci.kind, "value": name, "m": m,
                                    "family": fam})
    return out


def _unser_value(name):
    return {"bigint": 10 ** 5000, "object": object(), "decimal": decimal.Decimal("1.5"),
            "nested_object": {"a": [1, {"b": object()}]},
            "hard_text": ["caf\udce9", {"k\udc80": "\ud800x"}]}[name]


def run_unser(sc, base):
    ci = CLASSES[sc["class"]]
    cls = ci.cls
    if sc.get("family") == "nv":
        cls = NVDict if ci.kind == "dict" else NVList
    d = os.path.join(base, "unser")
    shutil.rmtree(d, ignore_errors=True)
    os.mkdir(d)
    _write_initial(d, sc)
    p = _paths(d, 1)[0]
    before = _snapshot(d, 1)[0]
    ino = os.stat(p).st_ino if before is not None else None

    def setup():
        reset_class_state()
        if not sc["threading"]:
            cls.disable_multithreading()
        return cls(filename=p, write_concern=sc["wc"])

    def action(o):
        v = _unser_value(sc["value"])
        m = sc["m"]
        if m == "setitem":
            o["u"] = v
        elif m == "update":
            o.update({"u": v})
        elif m == "append":
            o.append(v)
        elif m == "extend":
            o.extend([1, v])
        elif m == "reset":
            o.reset({"u": v} if ci.kind == "dict" else [v])

    rc, meas = crash.run_child(setup, action, None)
    if meas is None or rc != 0:
        raise HarnessError("unser child failed")
    if meas["error"] is None:
        if sc["value"] == "hard_text":
            # accepted: then the file must be complete, valid JSON that a fresh object can open
            after = _snapshot(d, 1)[0]
            try:
                json.loads(after)
                reset_class_state()
                CLASSES[sc["class"]].cls(filename=p)()
            except Exception as e:  # noqa: BLE001
                return {"what": "file_invalid_after_accepted_value", "scenario": sc, "error": str(e)[:120]}
            return None
        return {"what": "unserializable_value_accepted", "scenario": sc}
    after = _snapshot(d, 1)[0]
    if after != before:
        return {"what": "unserializable_content_damaged_file", "scenario": sc,
                "before": None if before is None else before[:80].decode(),
                "after": None if after is None else after[:80].decode("utf-8", "replace")}
    if before is not None and os.stat(p).st_ino != ino:
        return {"what": "file_replaced_although_serialization_failed", "scenario": sc}
    try:
        reset_class_state()
        CLASSES[sc["class"]].cls(filename=p)()
    except Exception as e:  # noqa: BLE001
        return {"what": "fresh_object_cannot_open", "scenario": sc, "error": str(e)[:120]}
    return None


def run_shard(spec, seed, tier, active):
    ci = CLASSES[spec["cls"]]
    acc = Acc()
    base = env.scratch("vfc")
    if spec["mode"] == "unser":
        for sc in unser_cases(ci):
            d = run_unser(sc, base)
            acc.case([h64(sc)], sc if len(acc.samples) < 2 else None, {"unser.cases": 1})
            if d is not None and len(acc.failures) < 2:
                acc.failures.append({"case": {"property": ID, "engine": "crash", "unser": sc}, "desc": d})
        acc.extra["exhaustive"] = True
        return acc.result()

    n = 3 if tier == "quick" else 12
    if spec.get("longname"):
        n = 3 if tier == "quick" else 8

    def one(data):
        sc = draw_scenario(data.draw, ci, longname=bool(spec.get("longname")))
        d = run_scenario(sc, base, acc, tier)
        if d == "skip":
            acc.counters["skipped_scenarios"] += 1
            return
        if d is not None:
            raise CaseFailure({"property": ID, "engine": "crash", "scenario": sc, "point": d.get("point")}, d)

    fail = hyp_search(one, n, seed)
    if fail is not None:
        acc.failures.append({"case": fail.case, "desc": fail.desc})
    acc.extra["exhaustive"] = True
    acc.extra["scenarios"] = acc.counters.get("scenarios", 0)
    return acc.result()


def replay(case):
    base = env.scratch("vfc")
    if "unser" in case:
        return run_unser(case["unser"], base)
    d = run_scenario(case["scenario"], base, None, "thorough", only_point=case.get("point"))
    return None if d == "skip" else d
