"""C09: concurrent writers are linearizable - no update is ever lost."""
import copy

from hypothesis import strategies as st

from .. import conc, sched
from ..classes import CLASSES, JSON_ALL, HarnessError
from ..plain import enc, h64
from ..runner import Acc, CaseFailure, excl_of, hyp_search

ID = "C09"
LEVEL = "exploration"
RULE = ("Hypothesis-generated small multi-threaded programs (2-3 threads x 1-2 operations) over every "
        "public mutator incl. clear/reset/pop/popitem/reverse/remove/+=/update/setdefault, on the 12 "
        "thread-capable JSON classes (buffered classes used unbuffered); targets = one shared root "
        "object, a second object on the same file, nested-child handles taken before the threads "
        "start (only at positions no operation of the program reassigns); a quarter of the programs come "
        "from a steered family: a root clear()/reset() (which save without loading) next to ordinary "
        "mutators on the same, never-loaded object or on a second object. Each program is executed "
        "under the harness-owned deterministic scheduler: for every start thread the unpreempted run "
        "plus ALL single-preemption schedules (every executed line of library code that can touch collection state and every lock "
        "operation is a preemption point; complete when <=1600 schedules, otherwise every distinct "
        "preemption site (thread, operation, line/lock event) by its first 2 occurrences), plus Hypothesis-sampled 2-3 "
        "preemption schedules. Oracle: there is an interleaving of the operations respecting each "
        "thread's program order whose outcomes on a plain dict/list model equal all observed outcomes "
        "and whose final document equals the independently read file; no deadlock. Non-trivial "
        "execution = a thread was preempted in the middle of an operation and another thread ran; "
        "distinct by (program, preemption site).")
ASSUMPTIONS = [
    "preemption granularity: source lines of library code and lock operations; the atomicity of single "
    "C-level calls (dict/list methods, os.replace) under the GIL is trusted",
    "no schedule is claimed beyond those executed",
]

KEYS = ["a", "b", "c"]
VALS = [1, 2, "s", [1], {"n": 1}, None]


def shards(tier):
    reps = 4 if tier == "quick" else 16
    names = [c.name for c in JSON_ALL]
    return [{"cls": n, "rep": r} for n in names for r in range(reps)]


def dict_op(draw, restricted=False):
    k = draw(st.sampled_from(KEYS))
    v = draw(st.sampled_from(VALS))
    ms = ["setitem", "delitem", "pop", "setdefault", "update"]
    if not restricted:
        ms += ["popitem", "clear", "reset", "clear", "reset"]
    m = draw(st.sampled_from(ms))
    if m == "setitem":
        return {"m": m, "a": enc([k, v])}
    if m in ("delitem", "pop"):
        return {"m": m, "a": enc([k])}
    if m == "setdefault":
        return {"m": m, "a": enc([k, v])}
    if m == "update":
        return {"m": m, "a": enc([{k: v, draw(st.sampled_from(KEYS)): draw(st.sampled_from(VALS))}])}
    if m == "reset":
        return {"m": m, "a": enc([{k: v}])}
    return {"m": m, "a": []}


def list_op(draw, n, restricted=False):
    v = draw(st.sampled_from(VALS))
    ms = ["append", "extend", "iadd", "setitem"]
    if not restricted:
        ms += ["delitem", "insert", "remove", "pop", "pop", "reverse", "reverse", "clear", "reset"]
    m = draw(st.sampled_from(ms))
    lo = 1 if restricted else 0
    if m == "setitem":
        return {"m": m, "a": enc([draw(st.integers(lo, max(lo, n - 1))), v])}
    if m == "delitem":
        return {"m": m, "a": enc([draw(st.integers(-1, max(0, n - 1)))])}
    if m == "insert":
        return {"m": m, "a": enc([draw(st.integers(0, n)), v])}
    if m == "append":
        return {"m": m, "a": enc([v])}
    if m in ("extend", "iadd"):
        return {"m": m, "a": enc([[v, draw(st.sampled_from(VALS))]])}
    if m == "remove":
        return {"m": m, "a": enc([draw(st.sampled_from([1, 2, "s"]))])}
    if m == "pop":
        return {"m": m, "a": enc([draw(st.integers(0, max(0, n - 1)))] if draw(st.booleans()) else [])}
    if m == "reset":
        return {"m": m, "a": enc([[v, 1]])}
    return {"m": m, "a": []}


def dec_path(h):
    from ..plain import dec
    return dec(h["path"]) if "of" in h else []


def draw_clear_family(draw, ci):
    """Steered family: a root clear()/reset() (which skip the load) next to an ordinary mutator on
    the SAME object, a nested child of it, or a second object of the file; the objects have not
    loaded yet, so anything that makes the mutator skip its own load loses the file's content."""
    kind = ci.kind
    inner = {"l": [1, 2, "s"], "d": {"a": 2}}
    doc = {"H": inner, "a": 1, "b": [1]} if kind == "dict" else [inner, 1, 2, "s"]
    handles = [{"file": 0}, {"file": 0}]
    kinds = [kind, kind]
    m = draw(st.sampled_from(["clear", "reset"]))
    a = [] if m == "clear" else enc([{"r": 1}] if kind == "dict" else [[1]])
    t0 = [{"h": 0, "m": m, "a": a}]
    other = draw(st.sampled_from([0, 0, 1]))
    op = dict_op(draw, restricted=True) if kind == "dict" else list_op(draw, len(doc), restricted=True)
    t1 = [dict(op, h=other)]
    if draw(st.booleans()):
        op2 = dict_op(draw, restricted=True) if kind == "dict" else list_op(draw, len(doc), restricted=True)
        t1.append(dict(op2, h=draw(st.sampled_from([0, 1]))))
    threads = [t0, t1]
    if draw(st.integers(0, 2)) == 0:
        op3 = dict_op(draw, restricted=True) if kind == "dict" else list_op(draw, len(doc), restricted=True)
        threads.append([dict(op3, h=1)])
    return {"property": ID, "class": ci.name, "docs": [enc(doc)], "root_kinds": [kind],
            "handles": handles, "kinds": kinds, "threads": threads, "family": "root_clear_next_to_mutator"}


def draw_program(draw, ci, max_threads=3, max_ops=2, families=True):
    kind = ci.kind
    if families and draw(st.sampled_from([0, 1, 2, 3])) == 1:
        return draw_clear_family(draw, ci)
    nested = draw(st.booleans())
    inner = {"l": [1, 2, "s"], "d": {"a": 2}}
    if kind == "dict":
        doc = {"H": inner, "a": 1, "b": [1]}
    else:
        doc = [inner, 1, 2, "s"]
    handles = [{"file": 0}]
    kinds = [kind]
    if draw(st.booleans()):
        handles.append({"file": 0})
        kinds.append(kind)
    nroots = len(handles)
    if nested:
        base = ["H"] if kind == "dict" else [0]
        for path, k in ((base, "dict"), (base + ["l"], "list"), (base + ["d"], "dict")):
            if draw(st.booleans()):
                handles.append({"of": draw(st.integers(0, nroots - 1)), "path": enc(path)})
                kinds.append(k)
        if len(handles) == nroots:
            handles.append({"of": 0, "path": enc(base + ["l"])})
            kinds.append("list")
    T = draw(st.integers(2, max_threads))
    threads = []
    for _ in range(T):
        tops = []
        for _ in range(draw(st.integers(1, max_ops))):
            h = draw(st.integers(0, len(handles) - 1))
            is_root = h < nroots
            # a handle above another handle must not reassign/remove the lower one's position
            hp = tuple(dec_path(handles[h]))
            has_desc = any(("of" in g) and len(dec_path(g)) > len(hp) and tuple(dec_path(g))[:len(hp)] == hp
                           for g in handles) if not is_root else nested
            if kinds[h] == "dict":
                op = dict_op(draw, restricted=has_desc)
            else:
                n = len(doc) if is_root else 3
                op = list_op(draw, n, restricted=has_desc)
            op["h"] = h
            tops.append(op)
        threads.append(tops)
    # keep programs small: at most 5 operations in total (serial orders <= 30..90)
    while sum(len(t) for t in threads) > 5:
        max(threads, key=len).pop()
    return {"property": ID, "class": ci.name, "docs": [enc(doc)], "root_kinds": [kind],
            "handles": handles, "kinds": kinds, "threads": threads}


def judge(program, schedule, res, real_time=False):
    """Failure description for one executed schedule, or None."""
    if res.get("crashes") and any(res["crashes"]):
        raise HarnessError("worker body crashed: " + str([c for c in res["crashes"] if c][0]))
    if res["steplimit"]:
        raise HarnessError("step limit reached")
    if res["deadlock"]:
        return {"what": "deadlock", "threads": res["deadlock"], "schedule": schedule}
    leaks = [l for t in res["leaks"] for l in t]
    if leaks:
        return {"what": "lock_leak", "leaks": leaks, "schedule": schedule}
    if res.get("exit_error"):
        return {"what": "context_exit_raised", "error": res["exit_error"], "schedule": schedule}
    ok, why = conc.linearizable(program, res, real_time=real_time)
    if not ok:
        ops_ = [[(o["m"], o.get("a")) for o in t] for t in program["threads"]]
        return {"what": "not_linearizable", "why": why, "schedule": schedule,
                "outcomes": [[h["out"] for h in t] for t in res["history"]], "final": res["final"],
                "switches": [list(s[:4]) for s in res["switches"][:6]], "ops": ops_}
    return None


def sig_of(program, desc):
    """Structured signature of a failure (for known-finding matching)."""
    ms = sorted({o["m"] for t in program["threads"] for o in t})
    return {"what": desc["what"], "methods": ms}


def explore_program(program, acc, active, sample_extra=None, real_time=False):
    """Run baselines + all 1-preemption schedules (+ extra sampled ones); returns first failure."""
    T = len(program["threads"])
    base, bres, ones, exhaustive = conc.one_preemption_schedules(program, T)
    acc.counters["programs_exhaustive_1p" if exhaustive else "programs_all_sites_1p"] += 1
    allsched = base + ones + (sample_extra or [])
    results = bres + sched.explore(program, ones + (sample_extra or []))
    fail = None
    ph = h64(program["class"], program["threads"], program["handles"])
    for sc, res in zip(allsched, results):
        ov = conc.overlapping(res)
        nts = [h64(ph, str(s[3])) for s in ov]
        acc.case(nts, None, {"executions": 1, "overlapping": int(bool(ov))})
        d = judge(program, sc, res, real_time=real_time)
        if d is not None and fail is None:
            fail = (sc, d)
    return fail


def run_shard(spec, seed, tier, active):
    conc.MAX_SCHEDULES[0] = 2500 if tier == "quick" else 20000
    ci = CLASSES[spec["cls"]]
    acc = Acc()
    n = 2 if tier == "quick" else 10
    excl = excl_of(active)

    first = [True]

    def one(data):
        draw = data.draw
        program = draw_program(draw, ci)
        if first[0]:
            first[0] = False
            return      # Hypothesis always starts with the minimal example: spend the budget elsewhere
        program = apply_exclusions(program, excl, acc)
        if program is None:
            return
        extra = []
        for _ in range(draw(st.integers(0, 6))):
            ks = draw(st.lists(st.integers(1, 900), min_size=2, max_size=3, unique=True))
            extra.append({"start": draw(st.integers(0, len(program["threads"]) - 1)),
                          "pre": {k: draw(st.integers(0, len(program["threads"]) - 1)) for k in ks}})
        before = acc.evaluations
        fail = explore_program(program, acc, active, extra)
        acc.counters["programs"] += 1
        if program.get("family"):
            acc.counters["family." + program["family"]] += 1
        if len(acc.samples) < 3:
            acc.samples.append({"program": {k: program[k] for k in ("class", "handles", "threads")},
                                "schedules_executed": acc.evaluations - before})
        if fail is not None:
            sc, d = fail
            raise CaseFailure({"property": ID, "engine": "sched", "program": program, "schedule": sc}, d)

    fail = hyp_search(one, n, seed)
    if fail is not None:
        acc.failures.append({"case": fail.case, "desc": fail.desc})
    acc.extra["exhaustive_1p_programs"] = acc.counters.get("programs_exhaustive_1p", 0)
    acc.extra["all_sites_1p_programs"] = acc.counters.get("programs_all_sites_1p", 0)
    acc.extra["programs"] = acc.counters.get("programs", 0)
    return acc.result()


def apply_exclusions(program, excl, acc):
    """Exclusion by construction for known findings (replace the excluded operations)."""
    if not excl:
        return program
    p = copy.deepcopy(program)
    nroots = sum(1 for h in p["handles"] if "file" in h)
    changed = False
    for t in p["threads"]:
        for op in t:
            is_root = op["h"] < nroots
            k = p["kinds"][op["h"]]
            if "root_clear_reset" in excl and is_root and op["m"] in ("clear", "reset"):
                op.update({"m": "update", "a": enc([{"a": 1}])} if k == "dict" else {"m": "append", "a": enc([1])})
                changed = True
            if "list_pop_reverse" in excl and k == "list" and op["m"] in ("pop", "reverse"):
                op.update({"m": "append", "a": enc([2])})
                changed = True
    if changed:
        acc.excluded += 1
    return p


def replay(case):
    program, sc = case["program"], case["schedule"]
    res = sched.explore(program, [sc])[0]
    return judge(program, sc, res)
