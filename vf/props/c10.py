"""C10: no operation leaks a lock; no interleaving deadlocks; retargeting does not break others."""
import errno

from hypothesis import strategies as st

from .. import conc, sched
from ..classes import CLASSES, JSON_ALL, HarnessError
from ..plain import enc, h64
from ..runner import Acc, CaseFailure, hyp_search
from . import c09

ID = "C10"
LEVEL = "fault_enumeration"
RULE = ("Four families, all executed under the deterministic scheduler, which owns every lock the "
        "library creates and reports lock ownership and deadlock exactly. (A) fault enumeration, "
        "complete per class ('exhaustive': true): every mutator and read operation x fault {unparsable "
        "file content, valid JSON of the other root kind, truncated JSON, rejected value, OSError "
        "(EIO/EACCES/ENOSPC/EMFILE) injected at the k-th file-system call of the operation for EVERY k "
        "of its load and save (open, read, write, close, os.replace, os.stat)} x {unbuffered, inside "
        "buffer_backend()} for the 12 JSON classes; afterwards a second thread operates on the same "
        "object, on another object of the same file and on an object of another file. Oracle: after "
        "the operation returned or raised no lock is owned by its thread, the second thread completes "
        "all its operations (no deadlock), nothing is owned at the end. (B) Hypothesis-generated "
        "programs mixing load-and-save mutators, clear/reset, object construction (class lock) and "
        "buffered mode, operations taking another collection as operand (a.update(b) next to "
        "b.update(a)) and buffered contexts entered/left by the threads themselves while others "
        "operate; all single-preemption schedules / all preemption sites: no deadlock, no leak. "
        "(D) the same two ingredients as fixed programs per class (cross operands unbuffered and "
        "buffered; a thread leaving the backend-wide context during another thread's operation; a "
        "per-object context next to a writer on a second object; two class-wide contexts), every "
        "single-preemption schedule. "
        "(C) retarget: x.filename = other interleaved (every single preemption) with operations "
        "through objects still bound to the old file and objects bound to the new one: every "
        "operation succeeds and lands in the right file. Non-trivial = an injected fault actually "
        "raised and was followed by a second-thread operation needing the same lock (A), or a thread "
        "preempted mid-operation (B, C); distinct by (class, op, fault) / (program, site).")
ASSUMPTIONS = [
    "only the faults the property names are injected (content, value, I/O call), never exceptions at "
    "arbitrary lines",
    "deadlock detection is exact inside the cooperative scheduler; a lock created outside "
    "threading.RLock/Lock would hang and is reported as harness error (exit 2), not as a violation",
]

ERRNOS = [errno.EIO, errno.EACCES, errno.ENOSPC, errno.EMFILE]

DICT_OPS = [("setitem", ["k", 1]), ("delitem", ["a"]), ("pop", ["a"]), ("popitem", []), ("clear", []),
            ("update", [{"k": 1}]), ("setdefault", ["k", [1]]), ("reset", [{"k": 1}]),
            ("getitem", ["a"]), ("get", ["a"]), ("len", []), ("iter", []), ("contains", ["a"]),
            ("keys", []), ("values", []), ("items", []), ("call", []), ("eq", [{"a": 1}])]
LIST_OPS = [("setitem", [0, 1]), ("delitem", [0]), ("insert", [0, 1]), ("append", [1]),
            ("extend", [[1]]), ("iadd", [[1]]), ("remove", [1]), ("pop", []), ("reverse", []),
            ("clear", []), ("reset", [[1]]), ("getitem", [0]), ("len", []), ("iter", []),
            ("contains", [1]), ("index", [1]), ("count", [1]), ("call", []), ("eq", [[1]]), ("lt", [[2]])]
VALUE_OPS = {"setitem", "update", "setdefault", "reset", "insert", "append", "extend", "iadd"}


def shards(tier):
    s = [{"part": "A", "cls": c.name} for c in JSON_ALL]
    reps = 1 if tier == "quick" else 4
    s += [{"part": "B", "cls": c.name, "rep": r} for c in JSON_ALL for r in range(reps)]
    s += [{"part": "C", "cls": c.name} for c in JSON_ALL]
    s += [{"part": "D", "cls": c.name} for c in JSON_ALL]
    return s


def base_program(ci, buffered):
    kind = ci.kind
    d0 = {"a": 1, "n": {"x": [1]}} if kind == "dict" else [1, {"x": [1]}, 2]
    d1 = {"z": 0} if kind == "dict" else [0]
    mut = ("setitem", ["t", 2]) if kind == "dict" else ("append", [2])
    p = {"property": ID, "class": ci.name, "docs": [enc(d0), enc(d1)], "root_kinds": [kind, kind],
         "handles": [{"file": 0}, {"file": 0}, {"file": 1}], "kinds": [kind] * 3,
         "threads": [[], [{"h": h, "m": mut[0], "a": enc(mut[1])} for h in (0, 1, 2)]]}
    if buffered:
        p["buffered"] = {"cap": None}
    return p


def bad_value_args(kind, m, a):
    inv = {"$inv": "object"}
    if m == "setitem":
        return [a[0], inv]
    if m == "update":
        return [{"k": inv}]
    if m == "setdefault":
        return ["zz", inv]
    if m == "reset":
        return [{"k": inv}] if kind == "dict" else [[inv]]
    if m == "insert":
        return [0, inv]
    if m == "append":
        return [inv]
    return [[inv]]


def judge_a(res, want_t1=3):
    if res.get("crashes") and any(res["crashes"]):
        raise HarnessError("worker body crashed: " + str([c for c in res["crashes"] if c][0]))
    leaks = [l for t in res["leaks"] for l in t]
    if leaks:
        return {"what": "lock_leak", "leaks": leaks,
                "first_op_outcome": res["history"][0][0]["out"] if res["history"][0] else None}
    if res["deadlock"]:
        return {"what": "deadlock_after_fault", "threads": res["deadlock"],
                "first_op_outcome": res["history"][0][0]["out"] if res["history"][0] else None}
    if len(res["history"][1]) != want_t1:
        return {"what": "second_thread_incomplete", "done": len(res["history"][1])}
    return None


def run_part_a(ci, acc):
    kind = ci.kind
    ops_ = DICT_OPS if kind == "dict" else LIST_OPS
    other = '[1, 2]' if kind == "dict" else '{"a": 1}'
    content_faults = {"corrupt": "{not json", "foreign_kind": other, "truncated": '{"a": [1, ' if kind == "dict" else '[1, {"a": '}
    seq = {"start": 0, "pre": {}}
    for buffered in ([False, True] if ci.buffered else [False]):
        for (m, a) in ops_:
            # measure the file-system calls of the unfaulted operation
            p = base_program(ci, buffered)
            p["count_io"] = True
            p["threads"][0] = [{"h": 0, "m": m, "a": enc(a)}]
            r0 = sched.explore(p, [seq])[0]
            d0 = judge_a(r0)
            io = (r0["history"][0][0].get("io") or []) if r0["history"][0] else []
            cases = []
            cases.append(("none", None))
            for name, content in content_faults.items():
                cases.append((name, {"content": content, "file": 0}))
            if m in VALUE_OPS:
                cases.append(("rejected_value", "value"))
            for k in range(1, len(io) + 1):
                cases.append((f"io{k}:{io[k - 1]}", {"io_k": k, "errno": ERRNOS[k % len(ERRNOS)]}))
            for name, fault in cases:
                p = base_program(ci, buffered)
                op = {"h": 0, "m": m, "a": enc(a)}
                if fault == "value":
                    op["a"] = bad_value_args(kind, m, a)
                elif fault is not None:
                    op["fault"] = fault
                p["threads"][0] = [op]
                res = sched.explore(p, [seq])[0] if fault is not None else r0
                d = judge_a(res) if fault is not None else d0
                raised = bool(res["history"][0]) and res["history"][0][0]["out"][0] == "raise"
                fired = bool(res["history"][0]) and (res["history"][0][0].get("fired") or (raised and fault is not None))
                key = (ci.name, m, name.split(":")[0] if name.startswith("io") else name, buffered)
                acc.case([h64(ci.name, m, name, buffered)] if fired else (),
                         {"class": ci.name, "op": m, "fault": name, "buffered": buffered,
                          "outcome": res["history"][0][0]["out"] if res["history"][0] else None} if fired else None,
                         {"A.executions": 1, "A.fault_raised": int(bool(fired)),
                          "A.io_points": int(name.startswith("io"))})
                if d is not None:
                    bucket = (d["what"], "content" if name in content_faults else name.split(":")[0][:2], buffered)
                    if bucket not in acc.extra.setdefault("_buckets", set()) and len(acc.failures) < 4:
                        acc.extra["_buckets"].add(bucket)
                        acc.failures.append({"case": {"property": ID, "engine": "sched", "part": "A",
                                                      "program": p, "schedule": seq}, "desc": dict(d, op=m, fault=name, buffered=buffered)})
    acc.extra.pop("_buckets", None)
    acc.extra["exhaustive"] = True


def draw_program_b(draw, ci):
    p = c09.draw_program(draw, ci, max_threads=3, max_ops=2, families=False)
    p["docs"] = p["docs"] + [enc({} if ci.kind == "dict" else [])]
    p["root_kinds"] = p["root_kinds"] + [ci.kind]
    # sprinkle object constructions (class lock) and make clear/reset likely
    for t in p["threads"]:
        if draw(st.integers(0, 2)) == 0:
            t.insert(draw(st.integers(0, len(t))), {"h": 0, "m": "construct", "a": [draw(st.integers(0, 1))]})
        if draw(st.integers(0, 2)) == 0:
            t.append({"h": 0, "m": draw(st.sampled_from(["clear", "reset"])),
                      "a": [] if False else []})
            if t[-1]["m"] == "reset":
                t[-1]["a"] = enc([{"r": 1}] if ci.kind == "dict" else [[1]])
    # a root clear/reset invalidates nested handles: drop ops on nested handles in that case
    nroots = sum(1 for h in p["handles"] if "file" in h)
    if any(op["m"] in ("clear", "reset") and op["h"] < nroots for t in p["threads"] for op in t):
        for t in p["threads"]:
            t[:] = [op for op in t if op["h"] < nroots or op["m"] == "construct"]
    p["threads"] = [t for t in p["threads"] if t] or [[{"h": 0, "m": "clear", "a": []}]]
    if len(p["threads"]) < 2:
        p["threads"].append([{"h": 0, "m": "construct", "a": [0]}])
    if ci.buffered and draw(st.booleans()):
        p["buffered"] = {"cap": draw(st.sampled_from([None, 0, 1, 30]))}
    nroots = sum(1 for h in p["handles"] if "file" in h)
    # a second file's object as an OPERAND: the operation reads another collection while it holds
    # its own collection's lock (a.update(b) next to b.update(a))
    if draw(st.integers(0, 2)) == 0:
        p["handles"].append({"file": 1})
        p["kinds"].append(ci.kind)
        other = len(p["handles"]) - 1
        m = "update" if ci.kind == "dict" else "extend"
        pairs = [(0, other), (other, 0)]
        for ti, t in enumerate(p["threads"][:2]):
            a, b = pairs[ti]
            t.insert(draw(st.integers(0, len(t))), {"h": a, "m": m, "a": [{"$h": b}]})
        p["cross_operands"] = True
    # buffered contexts entered and left by the threads themselves while others operate
    if ci.buffered and draw(st.integers(0, 2)) == 0:
        for t in p["threads"]:
            c = draw(st.integers(0, 3))
            if c == 0 and p.get("buffered"):
                t.insert(draw(st.integers(0, len(t))), {"h": 0, "m": "ctx_exit_main", "a": []})
            elif c == 1:
                i = draw(st.integers(0, len(t)))
                t.insert(i, {"h": draw(st.integers(0, nroots - 1)), "m": draw(st.sampled_from(["ctx_enter_obj", "ctx_enter_cls"])), "a": []})
                t.insert(draw(st.integers(i + 1, len(t))), {"h": 0, "m": "ctx_exit_own", "a": []})
        p["thread_contexts"] = True
    p["property"] = ID
    return p


def judge_b(program, sc, res):
    if res.get("crashes") and any(res["crashes"]):
        raise HarnessError("worker body crashed: " + str([c for c in res["crashes"] if c][0]))
    if res["steplimit"]:
        raise HarnessError("step limit")
    if res["deadlock"]:
        return {"what": "deadlock", "threads": res["deadlock"], "schedule": sc,
                "ops": [[(o["m"], o["h"]) for o in t] for t in program["threads"]]}
    leaks = [l for t in res["leaks"] for l in t]
    if leaks:
        return {"what": "lock_leak", "leaks": leaks, "schedule": sc}
    return None


def program_c(ci):
    kind = ci.kind
    d = {"a": 1} if kind == "dict" else [1]
    # nested values: building the child nodes takes the class lock while the file lock is held
    w = (lambda k: {"m": "setitem", "a": enc([k, {"n": [1]}])}) if kind == "dict" else \
        (lambda k: {"m": "append", "a": enc([{k: [1]}])})
    # handles: x (file0, will be retargeted to file1), y (file0), z (file1)
    return {"property": ID, "class": ci.name, "docs": [enc(d), enc(d)], "root_kinds": [kind, kind],
            "handles": [{"file": 0}, {"file": 0}, {"file": 1}], "kinds": [kind] * 3,
            "threads": [[dict(w("x0"), h=0), {"h": 0, "m": "set_filename", "a": [1]}, dict(w("x1"), h=0)],
                        [dict(w("y"), h=1), dict(w("z"), h=2), dict(w("y2"), h=1)]]}


def programs_d(ci):
    """Fixed programs: buffered contexts entered/left by THREADS while other threads operate, and
    operations that take another collection as operand in both directions."""
    kind = ci.kind
    d = {"a": 1, "n": {"x": 1}} if kind == "dict" else [1, {"x": 1}]
    w = (lambda k: {"m": "setitem", "a": enc([k, {"n": [1]}])}) if kind == "dict" else \
        (lambda k: {"m": "append", "a": enc([{k: [1]}])})
    base = {"property": ID, "class": ci.name, "docs": [enc(d), enc(d)], "root_kinds": [kind, kind],
            "handles": [{"file": 0}, {"file": 0}, {"file": 1}], "kinds": [kind] * 3}
    m = "update" if kind == "dict" else "extend"
    out = [("cross_operands", dict(base, threads=[[{"h": 0, "m": m, "a": [{"$h": 2}]}, dict(w("p"), h=0)],
                                                  [{"h": 2, "m": m, "a": [{"$h": 0}]}]]))]
    # x.filename = other WHILE another thread operates through the same object x
    out.append(("retarget_during_own_operation", dict(base, threads=[
        [dict(w("p"), h=0), dict(w("q"), h=0)], [{"h": 0, "m": "set_filename", "a": [1]}],
        [dict(w("r"), h=1), dict(w("s"), h=2)]])))
    # a temporary object on the file is created and garbage-collected while others operate on it
    out.append(("temporary_object_finalised_during_operations", dict(base, threads=[
        [dict(w("p"), h=0), dict(w("q"), h=0)], [{"h": 0, "m": "construct_drop", "a": [0]}, dict(w("s"), h=1)],
        [dict(w("r"), h=1)]])))
    if ci.buffered:
        # a PLAIN-class object and a buffered-class object on one file, and a buffered object of
        # another file as operand of the plain object's operation
        plain = {"BufferedJSONDict": "JSONDict", "MemoryBufferedJSONDict": "JSONDict",
                 "BufferedJSONList": "JSONList", "MemoryBufferedJSONList": "JSONList",
                 "BufferedJSONAttrDict": "JSONAttrDict", "MemoryBufferedJSONAttrDict": "JSONAttrDict",
                 "BufferedJSONAttrList": "JSONAttrList", "MemoryBufferedJSONAttrList": "JSONAttrList"}[ci.name]
        hs = [{"file": 0, "cls": plain}, {"file": 0}, {"file": 1}]
        copyop = ({"m": "setitem", "a": ["copy", {"$h": 2}]} if kind == "dict" else {"m": "append", "a": [{"$h": 2}]})
        out.append(("plain_and_buffered_class_on_one_file", dict(base, handles=hs, buffered={"cap": None}, threads=[
            [dict(copyop, h=0)], [dict(w("y"), h=1)], [dict(w("z"), h=2)]])))
        out.append(("cross_operands_buffered", dict(out[0][1], buffered={"cap": None})))
        out.append(("exit_main_during_op", dict(base, buffered={"cap": None}, threads=[
            [dict(w("p"), h=0), dict(w("q"), h=2)], [{"h": 0, "m": "ctx_exit_main", "a": []}, dict(w("r"), h=1)]])))
        out.append(("own_obj_context_next_to_writer", dict(base, threads=[
            [{"h": 0, "m": "ctx_enter_obj", "a": []}, dict(w("p"), h=0), {"h": 0, "m": "ctx_exit_own", "a": []}],
            [dict(w("q"), h=1), dict(w("r"), h=2)]])))
        out.append(("two_class_contexts", dict(base, threads=[
            [{"h": 0, "m": "ctx_enter_cls", "a": []}, dict(w("p"), h=0), {"h": 0, "m": "ctx_exit_own", "a": []}],
            [{"h": 2, "m": "ctx_enter_cls", "a": []}, dict(w("q"), h=2), {"h": 0, "m": "ctx_exit_own", "a": []},
             dict(w("r"), h=1)]])))
    return out


# part D programs in which no operation may fail either (no conflicting writers by construction)
# (not the cross-operand programs: reading the other collection while its own thread mutates it is
# known finding K3's domain - there only deadlocks and leaked locks are judged)
D_ALL_OPS_OK = {"temporary_object_finalised_during_operations", "retarget_during_own_operation"}


def judge_d(program, sc, res, name):
    d = judge_b(program, sc, res)
    if d is None and name in D_ALL_OPS_OK:
        bad = [(ti, h["op"], h["out"]) for ti, t in enumerate(res["history"]) for h in t if h["out"][0] != "ok"]
        if bad:
            return {"what": "operation_failed", "program": name, "failed": bad[:3], "schedule": sc}
    return d


def judge_c(program, sc, res):
    d = judge_b(program, sc, res)
    if d is not None:
        return d
    bad = [(ti, h["op"], h["out"]) for ti, t in enumerate(res["history"]) for h in t if h["out"][0] != "ok"]
    if bad:
        return {"what": "operation_failed_around_retarget", "failed": bad, "schedule": sc}
    from ..plain import dec
    f0, f1 = dec(res["final"][0]), dec(res["final"][1])
    has = (lambda f, k: (k in f) if isinstance(f, dict) else any(isinstance(e, dict) and k in e for e in f))
    need0, need1 = ["x0", "y", "y2"], ["x1", "z"]
    miss = [k for k in need0 if not has(f0, k)] + [k for k in need1 if not has(f1, k)]
    if miss:
        return {"what": "write_lost_around_retarget", "missing": miss, "final": res["final"], "schedule": sc}
    return None


def run_shard(spec, seed, tier, active):
    conc.MAX_SCHEDULES[0] = 2500 if tier == "quick" else 20000
    ci = CLASSES[spec["cls"]]
    acc = Acc()
    if spec["part"] == "A":
        run_part_a(ci, acc)
        return acc.result()
    if spec["part"] == "C":
        program = program_c(ci)
        base, bres, ones, exhaustive = conc.one_preemption_schedules(program, 2, full_limit=4000)
        results = bres + sched.explore(program, ones)
        ph = h64("C", ci.name)
        for sc, res in zip(base + ones, results):
            ov = conc.overlapping(res)
            acc.case([h64(ph, str(s[3])) for s in ov], None, {"C.executions": 1})
            d = judge_c(program, sc, res)
            if d is not None and not acc.failures:
                acc.failures.append({"case": {"property": ID, "engine": "sched", "part": "C",
                                              "program": program, "schedule": sc}, "desc": d})
        acc.samples.append({"part": "C", "program": program["threads"], "schedules": len(results),
                            "exhaustive_1p": exhaustive})
        return acc.result()

    if spec["part"] == "D":
        for name, program in programs_d(ci):
            T = len(program["threads"])
            conc.MAX_SCHEDULES[0] = 450 if tier == "quick" else 20000
            base, bres, ones, exhaustive = conc.one_preemption_schedules(
                program, T, full_limit=300 if tier == "quick" else 4000)
            results = bres + sched.explore(program, ones)
            ph = h64("D", ci.name, name)
            for sc, res in zip(base + ones, results):
                ov = conc.overlapping(res)
                acc.case([h64(ph, str(s[3])) for s in ov], None, {"D.executions": 1, "D." + name: 1})
                d = judge_d(program, sc, res, name)
                if d is not None and not any(f["case"].get("name") == name for f in acc.failures):
                    acc.failures.append({"case": {"property": ID, "engine": "sched", "part": "D", "name": name,
                                                  "program": program, "schedule": sc}, "desc": d})
            if len(acc.samples) < 2:
                acc.samples.append({"part": "D", "name": name, "program": program["threads"],
                                    "schedules": len(results), "exhaustive_1p": exhaustive})
        return acc.result()

    n = 2 if tier == "quick" else 12

    def one(data):
        program = draw_program_b(data.draw, ci)
        T = len(program["threads"])
        base, bres, ones, exhaustive = conc.one_preemption_schedules(program, T, full_limit=1200)
        results = bres + sched.explore(program, ones)
        ph = h64("B", ci.name, program["threads"], program.get("buffered"))
        fail = None
        for sc, res in zip(base + ones, results):
            ov = conc.overlapping(res)
            acc.case([h64(ph, str(s[3])) for s in ov], None,
                     {"B.executions": 1, "B.with_cross_operands": int(bool(program.get("cross_operands"))),
                      "B.with_thread_contexts": int(bool(program.get("thread_contexts")))})
            d = judge_b(program, sc, res)
            if d is not None and fail is None:
                fail = (sc, d)
        if len(acc.samples) < 2:
            acc.samples.append({"part": "B", "program": program["threads"], "buffered": program.get("buffered")})
        if fail:
            raise CaseFailure({"property": ID, "engine": "sched", "part": "B", "program": program,
                               "schedule": fail[0]}, fail[1])

    fail = hyp_search(one, n, seed)
    if fail is not None:
        acc.failures.append({"case": fail.case, "desc": fail.desc})
    return acc.result()


def replay(case):
    program, sc = case["program"], case["schedule"]
    res = sched.explore(program, [sc])[0]
    if case.get("part") == "A":
        return judge_a(res, want_t1=len(program["threads"][1]))
    if case.get("part") == "C":
        return judge_c(program, sc, res)
    if case.get("part") == "D":
        return judge_d(program, sc, res, case.get("name"))
    return judge_b(program, sc, res)
