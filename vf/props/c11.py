"""C11: forbidden data never gets in, through any entry point at any depth."""
import copy
import decimal
import inspect
import os
import itertools
import shutil
from collections.abc import MutableMapping, MutableSequence

from hypothesis import strategies as st

from .. import ops, wm
from ..classes import ABSENT, ALL, CLASSES, HarnessError, new_resource, reset_class_state
from ..plain import enc, h64
from ..runner import Acc, CaseFailure, hyp_search
from ..world import Mismatch, get_path
from synced_collections import SyncedCollection

ID = "C11"
LEVEL = "exploration"
RULE = ("Enumerated product (complete in BOTH tiers, 'exhaustive': true) of entry point {constructor "
        "data=, __setitem__ (key and value side), slice assignment, setdefault (also for a key that another object has meanwhile removed from the backend), update(mapping), "
        "update(pairs), update(**kw), update(mapping, **kw), reset, append, extend, insert, +=} x "
        "target {root, nested dict, nested list, container at depth 3} x invalid item {non-str keys 1, "
        "1.5, None, True, (1,2); values object(), set, complex, class instance, Decimal and their falsy/empty variants (set(), frozenset(), 0j, Decimal(0), an instance with __len__ 0); for "
        "attribute-access families a dotted key, also inside a LIVE synced collection of a plain family "
        "passed as the value} x embedding {direct, in dict, in list, depth 2 both "
        "ways, depth 3, first/last among valid siblings} x 18 classes; plus Hypothesis-generated random "
        "embeddings to depth 4. Entry points are cross-checked against the public API by "
        "introspection. A third part runs, for the 12 JSON classes under the deterministic scheduler, "
        "every entry point with forbidden data on one thread while another thread is in the middle of "
        "a valid nested-value operation on the same collection tree (all single-preemption schedules "
        "/ all preemption sites). Oracle: the call raises a TypeError/ValueError subclass; a walk of the "
        "in-memory node tree and of the independently read resource finds no forbidden item; for "
        "single-element entry points content and raw resource bytes are exactly as before. "
        "Non-trivial = invalid item not at the top level of the argument, or target not the root; "
        "distinct by product coordinates.")
ASSUMPTIONS = [
    "forbidden set per family: JSON/Redis/MongoDB: non-str keys and non-JSON values; attribute-access "
    "families (dict and list classes): also dotted keys; Zarr family: non-str keys only (it declares no "
    "value validator)",
    "NaN/inf, bytes, tuples, numpy arrays are not in the forbidden set",
    "bulk entry points may apply the valid part of an argument (the statement only fixes single-element ones)",
]


class _Inst:
    pass


class _FalsyInst:
    """An unsupported object that is falsy and has length 0."""

    def __len__(self):
        return 0


BAD_KEYS = {"k_int": 1, "k_float": 1.5, "k_none": None, "k_bool": True, "k_tuple": (1, 2)}
BAD_VALS = {"v_object": object, "v_set": lambda: {1, 2}, "v_complex": lambda: 1j,
            "v_instance": _Inst, "v_decimal": lambda: decimal.Decimal("1.5"),
            # falsy / empty variants: "nothing to validate" shortcuts must not let them through
            # equal to, and hashing like, the valid tuple (1, 2) that the process has validated before
            "v_tuple_decimal_eq": lambda: (decimal.Decimal(1), 2), "v_tuple_complex_eq": lambda: (1 + 0j, 2),
            "v_set_empty": set, "v_frozenset_empty": frozenset, "v_complex_zero": lambda: 0j,
            "v_decimal_zero": lambda: decimal.Decimal(0), "v_falsy_instance": _FalsyInst}
DOTTED = {"k_dotted": "a.b"}
# a LIVE synced collection of a plain family that legitimately holds a dotted key: forbidden as a
# value for the attribute-access families only
SYNCED = {"k_dotted_synced_dict": "dict", "k_dotted_synced_list": "list"}
ITEMS = list(BAD_KEYS) + list(BAD_VALS) + list(DOTTED) + list(SYNCED)

EMBED = ["direct", "in_dict", "in_list", "dict_list", "list_dict", "depth3", "sib_first", "sib_last"]

DICT_ENTRIES = ["ctor", "setitem", "setitem_key", "setdefault", "setdefault_key", "setdefault_stale", "update_map",
                "update_pairs", "update_kw", "update_both", "update_key", "reset",
                # the argument is merged INTO an existing nested container (in-place update paths)
                "update_merge_list", "update_merge_dict", "reset_merge_list", "reset_merge_dict"]
LIST_ENTRIES = ["ctor", "setitem", "setslice", "append", "extend", "insert", "iadd", "reset",
                "reset_merge_tail", "reset_merge_elem"]
MERGE = {"update_merge_list", "update_merge_dict", "reset_merge_list", "reset_merge_dict",
         "reset_merge_tail", "reset_merge_elem"}
SINGLE = {"ctor", "setitem", "setitem_key", "setdefault", "setdefault_key", "setdefault_stale", "append", "insert"}

TARGETS = ["root", "nested_dict", "nested_list", "depth3"]


def base_doc(kind):
    inner = {"x": 1, "dd": {"y": 1, "d3": {"q": 1}, "l3": [1, 2]}, "ll": [1, [2, [3]]]}
    if kind == "dict":
        return {"d": inner, "l": [1, {"z": 2}, [3]], "s": "t"}
    return [inner, [1, {"z": 2}, [3]], "t"]


def target_path(kind, target, want):
    """Path to a container of kind ``want`` for the given target class."""
    if target == "root":
        return () if kind == want else None
    d, l = (("d",), ("l",)) if kind == "dict" else ((0,), (1,))
    if target == "nested_dict":
        return d if want == "dict" else None
    if target == "nested_list":
        return l if want == "list" else None
    if target == "depth3":
        return d + ("dd", "d3") if want == "dict" else d + ("dd", "l3")


def is_forbidden(ci, item):
    if item in DOTTED or item in SYNCED:
        return ci.attr
    if item in BAD_VALS:
        return ci.backend != "zarr"
    return True


def make_item(item, directory=None):
    """(the invalid thing as a *value*, is_key_kind)."""
    if item in SYNCED:
        import json as _json
        from synced_collections.backends.collection_json import JSONDict, JSONList
        p = os.path.join(directory, "src_" + item + ".json")
        if SYNCED[item] == "dict":
            with open(p, "w") as f:
                _json.dump({"fine": 1, "a.b": {"x": 1}}, f)
            return JSONDict(p), False
        with open(p, "w") as f:
            _json.dump([1, {"a.b": 2}], f)
        return JSONList(p), False
    if item in BAD_VALS:
        return BAD_VALS[item](), False
    k = BAD_KEYS[item] if item in BAD_KEYS else DOTTED[item]
    return {k: 0}, True


def embed(v, how):
    if how == "direct":
        return v
    if how == "in_dict":
        return {"ok": v}
    if how == "in_list":
        return [v]
    if how == "dict_list":
        return {"a": [v]}
    if how == "list_dict":
        return [{"a": v}]
    if how == "depth3":
        return {"a": {"b": [v]}}
    if how == "sib_first":
        return [v, 1, "s"]
    if how == "sib_last":
        return [1, {"fine": [2]}, v]
    raise HarnessError(how)


def walk_forbidden(ci, x, path="$"):
    """Find a forbidden item in plain data or in a synced node tree (via _data)."""
    if isinstance(x, SyncedCollection):
        x = x._data
    if isinstance(x, dict):
        for k, v in x.items():
            if not isinstance(k, str):
                return f"{path}: non-str key {k!r}"
            if ci.attr and "." in k:
                return f"{path}: dotted key {k!r}"
            r = walk_forbidden(ci, v, f"{path}[{k!r}]")
            if r:
                return r
        return None
    if isinstance(x, (list, tuple)):
        for i, v in enumerate(x):
            r = walk_forbidden(ci, v, f"{path}[{i}]")
            if r:
                return r
        return None
    if x is None or isinstance(x, (str, int, float, bool)):
        return None
    if ci.backend == "zarr":
        return None
    return f"{path}: non-JSON value of type {type(x).__name__}"


def _first(cur, kind):
    items = cur.items() if isinstance(cur, dict) else enumerate(cur)
    for k, v in items:
        if isinstance(v, kind):
            return k
    return None


def call_entry(ci, obj, res, entry, arg, badkey):
    """Perform the entry point on target ``obj``. arg = embedded invalid value."""
    if entry in MERGE:
        cur = obj()
        if entry in ("update_merge_list", "reset_merge_list"):
            k = _first(cur, list)
            new = {**cur, k: cur[k] + ["fine", arg]} if entry.startswith("reset") else {k: cur[k] + ["fine", arg]}
        elif entry in ("update_merge_dict", "reset_merge_dict"):
            k = _first(cur, dict)
            new = {**cur, k: {**cur[k], "zz": arg}} if entry.startswith("reset") else {k: {**cur[k], "zz": arg}}
        elif entry == "reset_merge_tail":
            new = list(cur) + ["fine", arg]
        else:
            k = _first(cur, dict)
            new = list(cur)
            new[k] = {**cur[k], "zz": arg}
        if entry.startswith("update"):
            obj.update(new)
        else:
            obj.reset(new)
        return None
    if entry == "ctor":
        return res.make(ci, data=arg)
    if entry == "setitem":
        if isinstance(obj, MutableMapping):
            obj["new"] = arg
        else:
            obj[0] = arg
    elif entry == "setitem_key":
        obj[badkey] = 0
    elif entry == "setdefault":
        obj.setdefault("new", arg)
    elif entry == "setdefault_key":
        obj.setdefault(badkey, 0)
    elif entry == "update_map":
        obj.update({"u": 1, "new": arg})
    elif entry == "update_pairs":
        obj.update([("u", 1), ("new", arg)])
    elif entry == "update_kw":
        obj.update(u=1, new=arg)
    elif entry == "update_both":
        obj.update({"u": 1}, new=arg)
    elif entry == "update_key":
        obj.update([(badkey, 0)])
    elif entry == "reset":
        obj.reset({"new": arg} if isinstance(obj, MutableMapping) else [1, arg])
    elif entry == "setslice":
        obj[0:1] = [1, arg]
    elif entry == "append":
        obj.append(arg)
    elif entry == "extend":
        obj.extend([1, arg])
    elif entry == "insert":
        obj.insert(0, arg)
    elif entry == "iadd":
        obj += [1, arg]
    else:
        raise HarnessError(entry)


def cases_for(ci):
    out = []
    for target in TARGETS:
        for want, entries in (("dict", DICT_ENTRIES), ("list", LIST_ENTRIES)):
            if target_path(ci.kind, target, want) is None:
                continue
            for entry in entries:
                if entry == "ctor" and target != "root":
                    continue
                for item in ITEMS:
                    if not is_forbidden(ci, item):
                        continue
                    if entry in MERGE:
                        cur = get_path(base_doc(ci.kind), target_path(ci.kind, target, want))
                        need = list if entry.endswith(("_list", "_tail")) else dict
                        if entry != "reset_merge_tail" and _first(cur, need) is None:
                            continue
                    keyish = entry.endswith("_key")
                    if keyish and (item in BAD_VALS or item in SYNCED):
                        continue
                    if entry == "ctor" and item in SYNCED:
                        continue
                    for how in (["direct"] if keyish else EMBED):
                        if entry == "ctor" and how == "direct" and item in BAD_VALS:
                            continue  # ctor data must at least be a container of the right kind
                        out.append((ci.name, entry, target, want, item, how))
    return out


def run_case(case, extra_embed=None):
    cname, entry, target, want, item, how = case[:6]
    ci = CLASSES[cname]
    d = wm.case_dir()
    reset_class_state()
    try:
        res = new_resource(ci, d)
        doc = base_doc(ci.kind)
        res.write(copy.deepcopy(doc))
        root = res.make(ci)
        path = target_path(ci.kind, target, want)
        obj = root
        for k in path:
            obj = obj[k]
        before_raw = res.raw()
        before_mem = root()
        stale_key = None
        if entry == "setdefault_stale":
            # the key is in THIS object's memory, but another object has removed it from the
            # backend since: the default is stored, so it must be validated
            cont = get_path(doc, path)
            stale_key = next(k for k, v in cont.items() if not isinstance(v, (dict, list)))
            other = res.make(ci)
            for k in path:
                other = other[k]
            del other[stale_key]
            before_raw = res.raw()
            before_mem = copy.deepcopy(doc)
            del get_path(before_mem, path)[stale_key]
        val, keykind = make_item(item, d)
        badkey = None
        if entry.endswith("_key"):
            badkey = next(iter(val))
            arg = None
        else:
            arg = embed(val, how) if extra_embed is None else extra_embed(val)
            if entry == "ctor":
                # constructor data must be of the root's kind
                if ci.kind == "dict":
                    arg = arg if isinstance(arg, dict) else {"c": arg}
                else:
                    arg = arg if isinstance(arg, list) else [arg]
        err = None
        made = None
        try:
            if entry == "setdefault_stale":
                obj.setdefault(stale_key, arg)
            else:
                made = call_entry(ci, obj, res, entry, arg, badkey)
        except (TypeError, ValueError) as e:
            err = e
        except Exception as e:  # noqa: BLE001
            raise Mismatch("wrong_exception", case=list(case), error=f"{type(e).__name__}: {e}"[:200])
        if err is None:
            where = walk_forbidden(ci, made if made is not None else root) or \
                walk_forbidden(ci, res.read() if res.read() is not ABSENT else None)
            raise Mismatch("accepted", case=list(case), found=where or "(call returned normally)")
        bad = walk_forbidden(ci, root)
        if bad:
            raise Mismatch("forbidden_in_memory", case=list(case), found=bad)
        on_disk = res.read()
        bad = walk_forbidden(ci, on_disk)
        if bad:
            raise Mismatch("forbidden_in_backend", case=list(case), found=bad)
        # a fresh load must also be clean (the node tree is rebuilt from the resource)
        if entry in SINGLE:
            if res.raw() != before_raw:
                raise Mismatch("single_element_rejection_changed_backend", case=list(case),
                               before=repr(before_raw)[:120], after=repr(res.raw())[:120])
            if root._to_base() != before_mem:
                raise Mismatch("single_element_rejection_changed_memory", case=list(case))
        return True
    finally:
        reset_class_state()
        shutil.rmtree(d, ignore_errors=True)


KNOWN_PUBLIC = set(ops.DICT_MUT + ops.LIST_MUT + ops.DICT_READ + ops.LIST_READ) | {
    "copy", "sort",
    # not data entry points:
    "buffered", "buffer_backend", "backend_is_buffered", "get_buffer_capacity",
    "set_buffer_capacity", "get_current_buffer_size", "enable_multithreading",
    "disable_multithreading", "is_base_type", "filename", "registry", "client", "key",
    "collection", "uid", "codec", "group", "name", "index", "count", "get", "items", "keys",
    "values", "pop", "popitem", "remove", "reverse", "insert", "append", "extend", "clear",
    "update", "setdefault", "reset",
}


def check_api():
    """A public callable the tables do not know about is a harness error, not silence."""
    for ci in ALL:
        for name in dir(ci.cls):
            if name.startswith("_"):
                continue
            if name not in KNOWN_PUBLIC:
                raise HarnessError(f"{ci.name}.{name}: public attribute unknown to the C11 entry-point table")


def shards(tier):
    reps = 1 if tier == "quick" else 3
    return [{"cls": c.name, "mode": "enum"} for c in ALL] + \
           [{"cls": c.name, "mode": "random", "rep": r} for c in ALL for r in range(reps)] + \
           [{"cls": c.name, "mode": "threads"} for c in ALL if c.backend == "json"]


def run_threads(ci, acc, tier="quick"):
    """A second thread offers forbidden data while the first is in the middle of a valid operation
    on the same collection tree (all single-preemption schedules): it must be rejected all the same."""
    from .. import conc, sched
    from ..plain import dec
    kind = ci.kind
    doc = {"l": [1], "d": {"x": 1}} if kind == "dict" else [[1], {"x": 1}]
    handles = [{"file": 0}, {"of": 0, "path": enc(["l"] if kind == "dict" else [0])},
               {"of": 0, "path": enc(["d"] if kind == "dict" else [1])}]
    kinds = [kind, "list", "dict"]
    big = {"a": [{"b": [1, 2, {"c": 3}]}], "z": [[1], [2]]}
    slow = {"h": 0, "m": "setitem", "a": enc(["big", big])} if kind == "dict" else {"h": 0, "m": "append", "a": enc([big])}
    invs = ["intkey"] + (["dotkey"] if ci.attr else [])
    entries = []
    for inv in invs:
        v = {"$inv": inv}
        lh, dh = 1, 2
        entries += [(lh, "extend", [[v]]), (lh, "append", [v]), (lh, "insert", [0, v]), (lh, "iadd", [[v]]),
                    (lh, "setitem", [0, v]), (lh, "reset", [[v]]),
                    (dh, "setitem", ["k", v]), (dh, "update", [{"k": v}]), (dh, "setdefault", ["k2", v]),
                    (dh, "reset", [{"k": v}])]
        if kind == "list":
            entries += [(0, "extend", [[v]]), (0, "append", [v])]
        else:
            entries += [(0, "update", [{"k": v}]), (0, "setitem", ["k", v])]
    from ..plain import enc as _enc
    for (h, m, a) in entries:
        program = {"property": ID, "class": ci.name, "docs": [_enc(doc)], "root_kinds": [kind],
                   "handles": handles, "kinds": kinds,
                   "threads": [[slow], [{"h": h, "m": m, "a": a}]]}
        base, bres, ones, exhaustive = conc.one_preemption_schedules(
            program, 2, full_limit=0 if tier == "quick" else 2000, per_site=1 if tier == "quick" else 2)
        results = bres + sched.explore(program, ones)
        for sc, res in zip(base + ones, results):
            bad = None
            if res.get("crashes") and any(res["crashes"]):
                raise HarnessError("worker crashed: " + str([c for c in res["crashes"] if c][0]))
            if res["deadlock"] or any(res["leaks"]):
                bad = {"what": "deadlock_or_leak_while_rejecting", "schedule": sc}
            else:
                out = res["history"][1][0]["out"] if res["history"][1] else None
                if out is None or out[0] != "raise" or out[1] not in ("TypeError", "ValueError"):
                    bad = {"what": "accepted_while_other_thread_mid_operation", "entry": m, "handle": h,
                           "outcome": out, "schedule": sc}
                else:
                    final = res["final"][0]
                    found = walk_forbidden(ci, dec(final)) if final != "$ABSENT" else None
                    if found:
                        bad = {"what": "forbidden_in_backend", "found": found, "schedule": sc}
            ov = conc.overlapping(res)
            acc.case([h64("thr", ci.name, m, h, str(s_[3])) for s_ in ov], None, {"threads.executions": 1})
            if bad is not None and len(acc.failures) < 2:
                acc.failures.append({"case": {"property": ID, "engine": "c11threads", "program": program,
                                              "schedule": sc}, "desc": bad})
    if len(acc.samples) < 2:
        acc.samples.append({"threads_part": {"class": ci.name, "slow_op": slow, "entries": len(entries)}})


def _fails(case, fn=None):
    try:
        run_case(case, fn)
    except Mismatch as mm:
        return mm.describe()
    return None


def _warm_valid_tuples():
    """The process has validated ordinary tuples before (memo tables keyed by == / hash must not let
    an equal tuple with non-JSON members through)."""
    from synced_collections.validators import json_format_validator, require_string_key
    for v in ((1, 2), (1.0, 2), [(1, 2)], {"a": (1, 2)}):
        json_format_validator(v)
        require_string_key(v)


def run_shard(spec, seed, tier, active):
    _warm_valid_tuples()
    check_api()
    ci = CLASSES[spec["cls"]]
    acc = Acc()
    if spec["mode"] == "threads":
        run_threads(ci, acc, tier)
        return acc.result()
    if spec["mode"] == "enum":
        roots = set()
        for case in cases_for(ci):
            d = _fails(case)
            nt = case[5] != "direct" or case[2] != "root"
            acc.case([h64(case)] if nt else (), list(case) if nt else None,
                     {f"entry={case[1]}": 1, f"target={case[2]}": 1, f"item={case[4]}": 1})
            if d is not None:
                # one failure per (entry, item-kind) root cause bucket
                key = (case[1], "dotted" if case[4] in DOTTED else "synced" if case[4] in SYNCED
                       else "key" if case[4] in BAD_KEYS else "val")
                if key not in roots and len(acc.failures) < 3:
                    roots.add(key)
                    acc.failures.append({"case": {"property": ID, "engine": "c11", "case": list(case)},
                                         "desc": d})
        acc.extra["exhaustive"] = True
        return acc.result()

    # random deeper embeddings
    cases = cases_for(ci)
    n = 150 if tier == "quick" else 1500

    def one(data):
        draw = data.draw
        case = draw(st.sampled_from([c for c in cases if not c[1].endswith("_key")]))
        shape = draw(st.lists(st.sampled_from(["d", "l", "lf", "ll"]), min_size=1, max_size=4))

        def fn(v):
            for s in shape:
                if s == "d":
                    v = {"k": v, "other": [1, {"a": "b"}]}
                elif s == "l":
                    v = [v]
                elif s == "lf":
                    v = [v, 0]
                else:
                    v = [{"x": [1]}, v]
            return v
        try:
            run_case(case, fn)
        except Mismatch as mm:
            raise CaseFailure({"property": ID, "engine": "c11", "case": list(case), "shape": shape},
                              mm.describe())
        acc.case([h64(case, shape)], {"case": list(case), "shape": shape}, {"random_embedding": 1})

    fail = hyp_search(one, n, seed)
    if fail is not None:
        acc.failures.append({"case": fail.case, "desc": fail.desc})
    return acc.result()


def replay(case):
    if case.get("engine") == "c11threads":
        from .. import sched
        from ..plain import dec
        ci = CLASSES[case["program"]["class"]]
        res = sched.explore(case["program"], [case["schedule"]])[0]
        out = res["history"][1][0]["out"] if res["history"][1] else None
        if res["deadlock"] or any(res["leaks"]):
            return {"what": "deadlock_or_leak_while_rejecting"}
        if out is None or out[0] != "raise" or out[1] not in ("TypeError", "ValueError"):
            return {"what": "accepted_while_other_thread_mid_operation", "outcome": out}
        final = res["final"][0]
        found = walk_forbidden(ci, dec(final)) if final != "$ABSENT" else None
        return {"what": "forbidden_in_backend", "found": found} if found else None
    c = tuple(case["case"])
    shape = case.get("shape")
    fn = None
    if shape:
        def fn(v):
            for s in shape:
                if s == "d":
                    v = {"k": v, "other": [1, {"a": "b"}]}
                elif s == "l":
                    v = [v]
                elif s == "lf":
                    v = [v, 0]
                else:
                    v = [{"x": [1]}, v]
            return v
    return _fails(c, fn)
