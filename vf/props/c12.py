"""C12: every JSON value is accepted by every entry point and round-trips exactly (leaf types too)."""
import copy
import itertools
import shutil

from hypothesis import strategies as st

from .. import gen, wm
from ..classes import ABSENT, ALL, CLASSES, new_resource, reset_class_state
from ..plain import canon, h64, is_plain, kind_of, type_exact_eq
from ..runner import Acc, CaseFailure, hyp_search
from ..world import Mismatch
from .c11 import base_doc, target_path

ID = "C12"
LEVEL = "exploration"
RULE = ("Values from (i) the EXHAUSTIVE small domain: all JSON values with <=2 container levels and <=2 "
        "children over leaves {null,false,true,0,1,1.0,'','a'} (enumerated completely for the JSON "
        "plain, attr and buffered dict/list classes in thorough; a seeded stratified slice in quick), "
        "plus coverage-guided campaigns (atheris/libFuzzer mutating the byte string that feeds the same "
        "generator; edge coverage of synced_collections as feedback; all classes in thorough, two in quick), "
        "(ii) Hypothesis JSON values (depth<=6, full unicode, ints to +-2^80, finite floats incl. "
        "-0.0, 5e-324, 1e308), (iii) a boundary list; stored through every entry point {constructor, "
        "setitem, slice assignment, setdefault, update(mapping|pairs|**kw|both), reset, append, extend, "
        "insert, +=, and attribute assignment for attribute-access dicts} at root / nested dict / nested list / depth-3 targets of all 18 classes, over an "
        "empty prior state or over a prior value at the same position (so overwrites by ==-equal "
        "values of another JSON type happen). Oracle: the call does not raise; a FRESH collection "
        "object on the same resource returns () that is == the model and type-identical at every "
        "leaf (bool/int/float/str/null); the independently read resource likewise. Non-trivial = "
        "value contains a container, or a boundary scalar, or overwrites an existing position; "
        "distinct by canonical JSON of (class, entry, target, prior, value).")
ASSUMPTIONS = [
    "NaN/inf are outside the domain (not JSON); lone surrogates are included (JSON-escapable) except for MongoDB (BSON is UTF-8)",
    "MongoDB: ints within 64 bits and keys without NUL (BSON limits documented by the repo)",
    "attribute-access families: keys without dots",
    "Zarr fake mirrors numcodecs.JSON (sort_keys=True)",
]

LEAVES = [None, False, True, 0, 1, 1.0, "", "a"]
BOUNDARY = [2**63, -(2**63) - 1, 2**64 + 1, -(2**80), 10**40, 2**1024, -(2**1024) - 1, 10**400, -(10**1000),
            -0.0, 5e-324, 1e308, 1.7976931348623157e308,
            0.1, 1e-7, 123456789.125, "\u0000", "\U0001F600", "\\", '"', " ", "a.b", " ", "\n\t",
            "é", "\ud800", "a\udfffb", "null", "true", "1", "1.0", 1.0, 1, True, 0, False, 0.0, None, "", [], {}, [[]], [{}],
            {"": {}}, {"": ""}, {"a": [None]}]

DICT_ENTRIES = ["ctor", "setitem", "setdefault", "update_map", "update_pairs", "update_kw",
                "update_both", "reset"]
LIST_ENTRIES = ["ctor", "setitem", "setslice", "append", "extend", "insert", "iadd", "reset"]


def small_domain():
    lv0 = list(LEAVES)

    def conts(children):
        out = [[], {}]
        for a in children:
            out.append([a])
            out.append({"a": a})
        for a, b in itertools.product(children, repeat=2):
            out.append([a, b])
            out.append({"a": a, "": b})
        return out

    lv1 = conts(lv0)
    lv2 = conts(lv0 + lv1[:40])
    seen = set()
    res = []
    for v in lv0 + lv1 + lv2:
        c = canon(v)
        if c not in seen:
            seen.add(c)
            res.append(v)
    return res


SMALL = small_domain()


def apply_entry(ci, root, res, entry, path, val, prior_key):
    """Store ``val`` through ``entry`` at the container at ``path``; returns (obj_to_keep, model_fn)."""
    obj = root
    for k in path:
        obj = obj[k]
    if entry == "setitem":
        if isinstance(prior_key, str):
            obj[prior_key] = val
        else:
            obj[prior_key] = val
    elif entry == "setattr":
        setattr(obj, prior_key, val)       # attribute-access dicts: obj.p = value
    elif entry == "setdefault":
        obj.setdefault(prior_key, val)
    elif entry == "update_map":
        obj.update({prior_key: val})
    elif entry == "update_pairs":
        obj.update([(prior_key, val)])
    elif entry == "update_kw":
        obj.update(**{prior_key: val})
    elif entry == "update_both":
        obj.update({"u": 1}, **{prior_key: val})
    elif entry == "reset":
        obj.reset(val)
    elif entry == "setslice":
        obj[prior_key:prior_key + 1] = [val]
    elif entry == "append":
        obj.append(val)
    elif entry == "extend":
        obj.extend([val])
    elif entry == "insert":
        obj.insert(prior_key, val)
    elif entry == "iadd":
        obj += [val]


def model_entry(cont, entry, val, prior_key):
    v = copy.deepcopy(val)
    if entry in ("setitem", "setattr", "update_map", "update_pairs", "update_kw"):
        cont[prior_key] = v
    elif entry == "setdefault":
        cont.setdefault(prior_key, v)
    elif entry == "update_both":
        cont["u"] = 1
        cont[prior_key] = v
    elif entry == "reset":
        if isinstance(cont, dict):
            cont.clear()
            cont.update(v)
        else:
            cont[:] = v
    elif entry == "setslice":
        cont[prior_key:prior_key + 1] = [v]
    elif entry in ("append", "extend", "iadd"):
        cont.append(v)
    elif entry == "insert":
        cont.insert(prior_key, v)


SITUATIONS = ["plain", "buf", "new", "newbuf", "bufgc"]


def run_case(case):
    """``situ`` (7th element, default 'plain'): 'buf' = the value is stored inside the object's
    buffered context (buffered classes); 'new' = the resource does not exist yet and the storing
    call is the first operation of a fresh object; 'newbuf' = both."""
    cname, entry, target, want, prior, val = case[:6]
    situ = case[6] if len(case) > 6 else "plain"
    ci = CLASSES[cname]
    if situ in ("buf", "newbuf", "bufgc") and not ci.buffered:
        situ = "new" if situ == "newbuf" else "plain"
    if situ in ("new", "newbuf") and (target != "root" or entry == "ctor" or (want == "list" and entry == "setitem")):
        situ = "plain"      # (an empty list has no index to assign to)
    d = wm.case_dir()
    reset_class_state()
    try:
        res = new_resource(ci, d)
        path = target_path(ci.kind, target, want)
        doc = base_doc(ci.kind)
        if situ in ("new", "newbuf"):
            doc = {} if ci.kind == "dict" else []
            prior = ABSENT
        cont = doc
        for k in path:
            cont = cont[k]
        # choose the position and (optionally) plant the prior value there
        if want == "dict":
            key = "_p" if entry == "setattr" else "p"   # a non-protected name with a leading underscore
            if prior is not ABSENT:
                cont[key] = copy.deepcopy(prior)
        else:
            key = 0
            if prior is not ABSENT:
                cont.insert(0, copy.deepcopy(prior))
        if entry == "reset":
            # reset replaces the whole container: value must be of the container's kind
            val = {"r": val, "p": val} if want == "dict" else [val, val]
            if prior is not ABSENT and want == "list":
                pass
        model = copy.deepcopy(doc)
        mcont = model
        for k in path:
            mcont = mcont[k]
        if entry == "ctor":
            data = {"c": val, "p": val} if ci.kind == "dict" else [val, val]
            try:
                obj = res.make(ci, data=copy.deepcopy(data))
                # constructor data is persisted by the next save
                if ci.kind == "dict":
                    obj["z"] = 0
                    data["z"] = 0
                else:
                    obj.append(0)
                    data.append(0)
            except Exception as e:  # noqa: BLE001
                raise Mismatch("rejected", case=_enc_case(case), error=f"{type(e).__name__}: {e}"[:200])
            model = data
        else:
            if situ in ("new", "newbuf"):
                root = res.make(ci)
                if entry == "setslice":
                    key = 0
            else:
                res.write(copy.deepcopy(doc))
                root = res.make(ci)
                root()  # load the prior state into memory (the interesting case for merges)
            ctx = None
            try:
                if situ in ("buf", "newbuf"):
                    ctx = root.buffered
                    ctx.__enter__()
                elif situ == "bufgc":
                    # stored inside a backend-wide context through an object the caller does not
                    # keep (garbage-collected before the context ends)
                    import gc
                    ctx = type(root).buffer_backend()
                    ctx.__enter__()
                    tmp = res.make(ci)
                    apply_entry(ci, tmp, res, entry, path, copy.deepcopy(val), key)
                    del tmp, root
                    gc.collect()
                    root = None
                if root is not None:
                    apply_entry(ci, root, res, entry, path, copy.deepcopy(val), key)
                if ctx is not None:
                    c2, ctx = ctx, None
                    c2.__exit__(None, None, None)
            except Exception as e:  # noqa: BLE001
                raise Mismatch("rejected", case=_enc_case(case), error=f"{type(e).__name__}: {e}"[:200])
            finally:
                if ctx is not None:
                    try:
                        ctx.__exit__(None, None, None)
                    except Exception:  # noqa: BLE001
                        pass
            model_entry(mcont, entry, val, key)
        fresh = res.make(ci)()
        if not is_plain(fresh):
            raise Mismatch("fresh_read_not_plain", case=_enc_case(case))
        if not type_exact_eq(fresh, model):
            raise Mismatch("roundtrip", case=_enc_case(case), got=fresh, expected=model,
                           equal_but_types_differ=(fresh == model))
        disk = res.read()
        if not type_exact_eq(disk, model):
            raise Mismatch("resource", case=_enc_case(case), got=disk, expected=model)
    finally:
        reset_class_state()
        shutil.rmtree(d, ignore_errors=True)


def _enc_case(case):
    from ..plain import enc
    c = list(case)
    c[4] = "$ABSENT" if c[4] is ABSENT else enc(c[4])
    c[5] = enc(c[5])
    return c


def _dec_case(c):
    from ..plain import dec
    c = list(c)
    c[4] = ABSENT if c[4] == "$ABSENT" else dec(c[4])
    c[5] = dec(c[5])
    return tuple(c)


def coords(ci):
    out = []
    for target in ("root", "nested_dict", "nested_list", "depth3"):
        for want, entries in (("dict", DICT_ENTRIES), ("list", LIST_ENTRIES)):
            if target_path(ci.kind, target, want) is None:
                continue
            for e in entries:
                if e == "ctor" and target != "root":
                    continue
                out.append((e, target, want))
            if want == "dict" and ci.attr:
                out.append(("setattr", target, want))
    return out


def shards(tier):
    reps = 1 if tier == "quick" else 4
    s = [{"cls": c.name, "mode": "random", "rep": r} for c in ALL for r in range(reps)]
    s += [{"cls": c.name, "mode": "small"} for c in ALL]
    # coverage-guided campaigns (atheris) over the same case function; two classes in quick
    fz = ALL if tier == "thorough" else [c for c in ALL if c.name in ("JSONAttrDict", "BufferedJSONList")]
    s += [{"cls": c.name, "mode": "fuzz"} for c in fz]
    return s


def _ok_for(ci, v):
    """Is the value inside the class's accepted domain (Mongo ints, attr dots)?"""
    if isinstance(v, dict):
        for k, x in v.items():
            if ci.attr and "." in k:
                return False
            if ci.backend == "mongo" and "\x00" in k:
                return False
            if not _ok_for(ci, x):
                return False
        return True
    if isinstance(v, list):
        return all(_ok_for(ci, x) for x in v)
    if ci.backend == "mongo" and isinstance(v, int) and not isinstance(v, bool):
        return -(2**63) <= v < 2**63
    if ci.backend == "mongo" and isinstance(v, str):
        return not any(0xD800 <= ord(c) <= 0xDFFF for c in v)
    return True


def _nt(case):
    prior, val = case[4], case[5]
    return (prior is not ABSENT) or kind_of(val) in ("dict", "list") or any(
        type(val) is type(b) and val == b for b in BOUNDARY[:37])


def _fails(case):
    try:
        run_case(case)
    except Mismatch as mm:
        return mm.describe()
    return None


def run_shard(spec, seed, tier, active):
    ci = CLASSES[spec["cls"]]
    dom = gen.Dom(ci)
    acc = Acc()
    cs = coords(ci)
    buckets = set()

    def attempt(case):
        d = _fails(case)
        nt = _nt(case)
        acc.case([h64(_enc_case(case))] if nt else (), _enc_case(case) if nt else None,
                 {f"entry={case[1]}": 1, f"target={case[2]}": 1,
                  "prior=" + ("none" if case[4] is ABSENT else "present"): 1,
                  "situation=" + (case[6] if len(case) > 6 else "plain"): 1})
        return d

    if spec["mode"] == "small":
        # exhaustive small domain x entry points; prior = absent and each ==-colliding leaf
        vals = [v for v in SMALL if _ok_for(ci, v)]
        full = tier == "thorough"
        import random
        rnd = random.Random(seed)  # deterministic slice selection only (not part of any oracle)
        todo = []
        for (e, t, w) in cs:
            if not full and t in ("nested_dict", "nested_list") and e not in ("update_map", "reset", "setitem", "append"):
                continue
            pool = vals if full else rnd.sample(vals, min(len(vals), 60))
            for v in pool:
                todo.append((ci.name, e, t, w, ABSENT, v))
            # overwrites of an existing ==-equal / different-kind prior
            for prior in (1, True, 1.0, 0, False, "", None, [], {}, [0], {"a": 1}):
                for v in (LEAVES + [[], {}, [1], {"a": True}, [True], [1.0]]):
                    todo.append((ci.name, e, t, w, prior, v))
        # the same entry points at the root: inside a buffered context, as the first operation on
        # a resource that does not exist yet, and both (a seeded slice of the values)
        for (e, t, w) in cs:
            if t != "root" or e == "ctor":
                continue
            for situ in SITUATIONS[1:]:
                if situ in ("buf", "newbuf", "bufgc") and not ci.buffered:
                    continue
                for v in rnd.sample(vals, min(len(vals), 40 if full else 12)):
                    todo.append((ci.name, e, t, w, ABSENT, v, situ))
        for case in todo:
            d = attempt(case)
            if d is not None:
                key = (d["what"], case[1])
                if key not in buckets and len(acc.failures) < 4:
                    buckets.add(key)
                    acc.failures.append({"case": {"property": ID, "engine": "c12", "case": _enc_case(case)},
                                         "desc": d})
        acc.extra["exhaustive_small_domain"] = full
        acc.extra["small_domain_size"] = len(vals)
        return acc.result()

    if spec["mode"] == "fuzz":
        from .. import fuzz
        return fuzz.run_campaign("c12", spec, seed, acc, tier=tier)

    n = 250 if tier == "quick" else 2500
    one = make_one(spec, tier, acc)
    fail = hyp_search(one, n, seed)
    if fail is not None:
        acc.failures.append({"case": fail.case, "desc": fail.desc})
    return acc.result()


def make_one(spec, tier, acc):
    ci = CLASSES[spec["cls"]]
    dom = gen.Dom(ci)
    cs = coords(ci)

    def attempt(case):
        d = _fails(case)
        nt = _nt(case)
        acc.case([h64(_enc_case(case))] if nt else (), _enc_case(case) if nt else None,
                 {f"entry={case[1]}": 1, f"target={case[2]}": 1,
                  "prior=" + ("none" if case[4] is ABSENT else "present"): 1,
                  "situation=" + (case[6] if len(case) > 6 else "plain"): 1})
        return d

    def one(data):
        draw = data.draw
        e, t, w = draw(st.sampled_from(cs))
        c = draw(st.integers(0, 9))
        if c < 2:
            val = draw(st.sampled_from(BOUNDARY))
            if not _ok_for(ci, val):
                val = 1
        else:
            val = draw(dom.values(max_leaves=draw(st.sampled_from([3, 6, 12]))))
        prior = draw(st.one_of(st.just(ABSENT), st.just(ABSENT), dom.values(3),
                               st.sampled_from([1, True, 1.0, 0, False, 0.0, [], {}, None])))
        situ = draw(st.sampled_from(["plain", "plain"] + SITUATIONS))
        case = (ci.name, e, t, w, prior, val) if situ == "plain" else (ci.name, e, t, w, prior, val, situ)
        d = attempt(case)
        if d is not None:
            raise CaseFailure({"property": ID, "engine": "c12", "case": _enc_case(case)}, d)
    return one


def replay(case):
    return _fails(_dec_case(case["case"]))
