"""C13: buffered collections stay consistent under concurrent threads."""
import copy

from hypothesis import strategies as st

from .. import conc, sched
from ..classes import BUFFERED, CLASSES
from ..plain import enc, h64
from ..runner import Acc, CaseFailure, excl_of, hyp_search
from . import c09

ID = "C13"
LEVEL = "exploration"
RULE = ("Hypothesis-generated programs for the 8 buffered classes: the main thread enters "
        "Class.buffer_backend(capacity) with capacity from {default, 0, 1, about one document, about "
        "two documents} (so flushes are forced in the middle of operations), then 2-3 threads each run "
        "1-2 buffered mutators (setitem, delitem, pop, update, setdefault, append, extend, insert, +=, "
        "remove, reset, clear) on 1-3 files through one or two objects per file (threads may share an "
        "object or a file, or use distinct files); a thread may additionally own a PRIVATE object (used by "
        "no other thread) on any of the files and issue single-step reads through it; the main thread "
        "leaves the context after joining. Half of the programs come from two steered families: (i) the "
        "buffer already holds a modified file and a reader's first load of another file forces the "
        "flush while a writer makes its first buffered access to that file; (ii) a thread reads "
        "through its own object while another thread's growing operation pushes the buffer over a "
        "capacity of one or two documents and so flushes every buffered collection; (iii) one thread "
        "mutates a nested child (another node class) while others mutate the same file through roots. "
        "Executed under the deterministic scheduler (all single-preemption schedules when <=1600, "
        "otherwise all distinct preemption sites; plus sampled 2-3 preemption schedules). Oracle: no "
        "operation outcome other than what some serial order of the operations gives on the plain "
        "model (so no buffer-related error), the context exit does not raise, every file's final "
        "content equals that serial order's, get_current_buffer_size() is 0 afterwards, no deadlock, no "
        "lock left held. Non-trivial = a thread preempted in the middle of an operation while another "
        "ran; distinct by (program, preemption site).")
ASSUMPTIONS = list(c09.ASSUMPTIONS) + [
    "reads are issued only through objects no other thread uses (shared-object reads are C14's), and "
    "only single-step reads (getitem/get/len/dict membership)",
]


def shards(tier):
    reps = 6 if tier == "quick" else 20
    return [{"cls": c.name, "rep": r} for c in BUFFERED for r in range(reps)]


def draw_read_forced_flush(draw, ci):
    """Steered family: the buffer already holds a modified file; a reader's FIRST load of another
    file pushes the buffer over capacity, so the READER runs the forced flush (outside the buffer
    lock) while a writer on a second object makes its first buffered access to that file."""
    kind = ci.kind
    docs = [{"a": 0, "b": [1]} if kind == "dict" else [0, 1, "s"], {"a": 1, "b": [1]} if kind == "dict" else [1, 1, "s"]]
    handles = [{"file": 0}, {"file": 0}, {"file": 1}]
    kinds = [kind] * 3
    rd = ({"m": "len", "a": []} if draw(st.booleans()) else
          ({"m": "getitem", "a": enc(["a"])} if kind == "dict" else {"m": "getitem", "a": enc([0])}))
    wr = c09.dict_op(draw, restricted=True) if kind == "dict" else c09.list_op(draw, 3, restricted=True)
    threads = [[dict(rd, h=0)] + ([dict(rd, h=0)] if draw(st.booleans()) else []), [dict(wr, h=1)]]
    if draw(st.integers(0, 2)) == 0:
        w2 = c09.dict_op(draw, restricted=True) if kind == "dict" else c09.list_op(draw, 3, restricted=True)
        threads.append([dict(w2, h=draw(st.sampled_from([1, 2])))])
    pre = [dict({"m": "setitem", "a": enc(["p", 1])} if kind == "dict" else {"m": "append", "a": enc(["p"])}, h=2)]
    cap = draw(st.sampled_from([20, 30, 45, 1])) if ci.buffered == "serialized" else draw(st.sampled_from([1, 1, 2]))
    return {"property": ID, "class": ci.name, "docs": [enc(d) for d in docs], "root_kinds": [kind] * 2,
            "handles": handles, "kinds": kinds, "threads": threads, "buffered": {"cap": cap},
            "pre_ops": pre, "family": "read_forced_flush"}


def draw_flush_over_reader(draw, ci):
    """Steered family: a thread reads through its own object while a writer's GROWING operation on
    the same file (through another object) or on another file pushes the buffer over a capacity of
    about one or two documents, so the writer's thread runs a forced flush over every buffered
    collection - the reader's object included."""
    kind = ci.kind
    F = draw(st.sampled_from([1, 1, 2]))
    docs = [({"a": i, "b": [1]} if kind == "dict" else [i, 1, "s"]) for i in range(F)]
    handles = [{"file": 0}, {"file": 0}] + ([{"file": 1}] if F == 2 else [])
    kinds = [kind] * len(handles)
    reads = ([{"m": "getitem", "a": enc(["a"])}, {"m": "len", "a": []}, {"m": "contains", "a": enc(["c"])}]
             if kind == "dict" else [{"m": "getitem", "a": enc([0])}, {"m": "len", "a": []}])
    rt = [dict(draw(st.sampled_from(reads)), h=1) for _ in range(draw(st.integers(1, 2)))]
    big = draw(st.sampled_from([{"n": 1}, [1], {"n": [1, 2]}, "sssssss"]))
    if kind == "dict":
        grow = draw(st.sampled_from([{"m": "setitem", "a": enc(["c", big])}, {"m": "update", "a": enc([{"c": big, "a": big}])},
                                     {"m": "setdefault", "a": enc(["c", big])}]))
    else:
        grow = draw(st.sampled_from([{"m": "append", "a": enc([big])}, {"m": "insert", "a": enc([2, big])},
                                     {"m": "extend", "a": enc([[big, 1]])}]))
    others = [0] + ([2] if F == 2 else [])      # handle 1 is the reader's private object
    wh = draw(st.sampled_from([0] + others))
    threads = [rt, [dict(grow, h=wh)]]
    if draw(st.integers(0, 2)) == 0:
        extra = c09.dict_op(draw, restricted=True) if kind == "dict" else c09.list_op(draw, 3, restricted=True)
        threads.append([dict(extra, h=draw(st.sampled_from(others)))])
    pre = [dict({"m": "setitem", "a": enc(["p", 1])} if kind == "dict" else {"m": "append", "a": enc(["p"])},
                h=draw(st.sampled_from(others))) for _ in range(draw(st.integers(0, 2)))]
    cap = draw(st.sampled_from([30, 45, 60, 20])) if ci.buffered == "serialized" else draw(st.sampled_from([1, 1, 2, 0]))
    return {"property": ID, "class": ci.name, "docs": [enc(d) for d in docs], "root_kinds": [kind] * F,
            "handles": handles, "kinds": kinds, "threads": threads, "buffered": {"cap": cap},
            "pre_ops": pre, "family": "flush_over_reader"}


def draw_nested_child(draw, ci):
    """Steered family: one thread mutates a NESTED child (of the other container kind, hence of
    another node class) of one object while other threads mutate the same file through the root of
    a second object and through the first object's root."""
    kind = ci.kind
    F = draw(st.sampled_from([1, 2]))
    if kind == "dict":
        docs = [{"a": i, "H": [1]} for i in range(F)]
        child = {"of": 0, "path": enc(["H"])}
        ckind = "list"
    else:
        docs = [[{"x": 1}, i, "s"] for i in range(F)]
        child = {"of": 0, "path": enc([0])}
        ckind = "dict"
    handles = [{"file": 0}, {"file": 0}, child] + ([{"file": 1}] if F == 2 else [])
    kinds = [kind, kind, ckind] + ([kind] if F == 2 else [])
    cop = (lambda: c09.list_op(draw, 1, restricted=False)) if ckind == "list" else (lambda: c09.dict_op(draw))
    rop = (lambda: c09.dict_op(draw, restricted=True)) if kind == "dict" else (lambda: c09.list_op(draw, 3, restricted=True))
    t0 = []
    for _ in range(draw(st.integers(1, 2))):
        op = cop()
        while op["m"] in ("clear", "reset") and ckind == "list" and False:
            op = cop()
        t0.append(dict(op, h=2))
    threads = [t0, [dict(rop(), h=1)]]
    roots = [0, 1] + ([3] if F == 2 else [])       # handle 2 is the nested child
    if draw(st.booleans()):
        threads.append([dict(rop(), h=draw(st.sampled_from([0, roots[-1]])))])
    pre = [dict({"m": "setitem", "a": enc(["p", 1])} if kind == "dict" else {"m": "append", "a": enc(["p"])},
                h=draw(st.sampled_from(roots))) for _ in range(draw(st.integers(0, 1)))]
    cap = draw(st.sampled_from([None, 0, 1, 20, 30, 45])) if ci.buffered == "serialized" else draw(st.sampled_from([None, 0, 1, 2]))
    return {"property": ID, "class": ci.name, "docs": [enc(d) for d in docs], "root_kinds": [kind] * F,
            "handles": handles, "kinds": kinds, "threads": threads, "buffered": {"cap": cap},
            "pre_ops": pre, "family": "nested_child", "children_after_enter": True}


def draw_program(draw, ci):
    kind = ci.kind
    fam = draw(st.sampled_from([0, 1, 2, 3, 4, 5, 6]))
    if fam == 1:
        return draw_read_forced_flush(draw, ci)
    if fam in (2, 3):
        return draw_flush_over_reader(draw, ci)
    if fam == 4:
        return draw_nested_child(draw, ci)
    F = draw(st.integers(1, 3))
    docs = []
    for i in range(F):
        docs.append({"a": i, "b": [1]} if kind == "dict" else [i, 1, "s"])
    handles, kinds = [], []
    for i in range(F):
        handles.append({"file": i})
        kinds.append(kind)
        if draw(st.integers(0, 2)) == 0:
            handles.append({"file": i})
            kinds.append(kind)
    T = draw(st.integers(2, 3))
    threads = []
    shared = len(handles)
    for _ in range(T):
        tops = []
        private = None
        if draw(st.integers(0, 2)) == 0:
            # a thread-private object (no other thread uses it) on one of the files: it may READ
            private = len(handles)
            handles.append({"file": draw(st.integers(0, F - 1))})
            kinds.append(kind)
        for _ in range(draw(st.integers(1, 2))):
            if private is not None and draw(st.booleans()):
                # single-step reads only: with the shared-memory strategy all objects on a file share
                # one container while buffered, and iterating reads can be torn (known finding K3)
                if kind == "dict":
                    op = draw(st.sampled_from([{"m": "getitem", "a": enc(["a"])}, {"m": "get", "a": enc(["b"])},
                                               {"m": "len", "a": []}, {"m": "contains", "a": enc(["c"])}]))
                else:
                    op = draw(st.sampled_from([{"m": "getitem", "a": enc([0])}, {"m": "len", "a": []},
                                               {"m": "getitem", "a": enc([-1])}]))
                op = dict(op, h=private)
            else:
                h = draw(st.integers(0, shared - 1))
                op = c09.dict_op(draw) if kind == "dict" else c09.list_op(draw, 3)
                op["h"] = h
            tops.append(op)
        threads.append(tops)
    while sum(len(t) for t in threads) > 5:
        max(threads, key=len).pop()
    # the main thread may already have modified files inside the context before the threads start
    pre = []
    for _ in range(draw(st.integers(0, 2))):
        op = {"m": "setitem", "a": enc(["p", 1])} if kind == "dict" else {"m": "append", "a": enc(["p"])}
        pre.append(dict(op, h=draw(st.integers(0, shared - 1))))
    if ci.buffered == "serialized":
        cap = draw(st.sampled_from([None, 0, 1, 20, 30, 45]))
    else:
        cap = draw(st.sampled_from([None, 0, 1, 2]))
    return {"property": ID, "class": ci.name, "docs": [enc(d) for d in docs], "root_kinds": [kind] * F,
            "handles": handles, "kinds": kinds, "threads": threads, "buffered": {"cap": cap},
            "pre_ops": pre}


def judge(program, sc, res):
    d = c09.judge(program, sc, res)
    if d is None and res.get("buffer_size") not in (0, None):
        d = {"what": "buffer_size_nonzero_after_exit", "size": res["buffer_size"], "schedule": sc}
    return d


def run_shard(spec, seed, tier, active):
    conc.MAX_SCHEDULES[0] = 2500 if tier == "quick" else 20000
    ci = CLASSES[spec["cls"]]
    acc = Acc()
    n = 2 if tier == "quick" else 10

    first = [True]

    def one(data):
        draw = data.draw
        program = draw_program(draw, ci)
        if first[0]:
            first[0] = False
            return      # Hypothesis always starts with the minimal example: spend the budget elsewhere
        T = len(program["threads"])
        extra = []
        for _ in range(draw(st.integers(0, 6))):
            ks = draw(st.lists(st.integers(1, 900), min_size=2, max_size=3, unique=True))
            extra.append({"start": draw(st.integers(0, T - 1)),
                          "pre": {k: draw(st.integers(0, T - 1)) for k in ks}})
        base, bres, ones, exhaustive = conc.one_preemption_schedules(program, T)
        acc.counters["programs_exhaustive_1p" if exhaustive else "programs_all_sites_1p"] += 1
        allsched = base + ones + extra
        results = bres + sched.explore(program, ones + extra)
        ph = h64(program["class"], program["threads"], program["handles"], program["buffered"])
        fail = None
        for sc, res in zip(allsched, results):
            ov = conc.overlapping(res)
            acc.case([h64(ph, str(s[3])) for s in ov], None, {"executions": 1, "overlapping": int(bool(ov))})
            d = judge(program, sc, res)
            if d is not None and fail is None:
                fail = (sc, d)
        acc.counters["programs"] += 1
        acc.counters[f"cap={program['buffered']['cap']}"] += 1
        if program.get("family"):
            acc.counters["family." + program["family"]] += 1
        if len(acc.samples) < 3:
            acc.samples.append({"program": {k: program[k] for k in ("class", "handles", "threads", "buffered")},
                                "schedules_executed": len(allsched)})
        if fail is not None:
            raise CaseFailure({"property": ID, "engine": "sched", "program": program, "schedule": fail[0]}, fail[1])

    fail = hyp_search(one, n, seed)
    if fail is not None:
        acc.failures.append({"case": fail.case, "desc": fail.desc})
    acc.extra["programs"] = acc.counters.get("programs", 0)
    acc.extra["exhaustive_1p_programs"] = acc.counters.get("programs_exhaustive_1p", 0)
    acc.extra["all_sites_1p_programs"] = acc.counters.get("programs_all_sites_1p", 0)
    return acc.result()


def replay(case):
    program, sc = case["program"], case["schedule"]
    res = sched.explore(program, [sc])[0]
    return judge(program, sc, res)
