"""C14: readers next to writers - no lost update, no impossible state, no error."""
import copy

from hypothesis import strategies as st

from .. import conc, sched
from ..classes import CLASSES, JSON_ALL
from ..ops import model_apply
from ..plain import dec, enc, h64
from ..runner import Acc, CaseFailure, excl_of, hyp_search
from . import c09

ID = "C14"
LEVEL = "exploration"
RULE = ("Hypothesis-generated programs with >=1 reader thread (1-2 of getitem/get/len/iter/()/==/in and "
        "navigation to a nested child) and >=1 writer thread (1-2 load-and-save mutators), on one "
        "shared object or on two objects bound to one file, unbuffered and inside buffer_backend() "
        "for both buffering strategies, for the 12 thread-capable JSON classes; == operands are the "
        "content before a writer's operation, after it, or a MIX of entries from before and after "
        "(an impossible state), and a quarter of the programs come from a steered family in which one "
        "write changes a scalar and, in place, a nested container; executed under the "
        "deterministic scheduler (all single-preemption schedules when <=1600, otherwise all distinct "
        "preemption sites; plus sampled 2-3 preemption schedules). Oracle: the COMPLETE history, reads "
        "included, is linearizable against the plain model: some total order respecting program order "
        "and real-time precedence (recorded invoke/response steps) reproduces every outcome and the "
        "final file - i.e. each read returned a value the collection had between its start and end "
        "and no update was lost; no thread raised. Non-trivial = a thread preempted in the middle of "
        "an operation while another ran; distinct by (program, preemption site).")
ASSUMPTIONS = list(c09.ASSUMPTIONS)

KEYS = c09.KEYS
VALS = c09.VALS


def shards(tier):
    reps = 4 if tier == "quick" else 16
    return [{"cls": c.name, "rep": r} for c in JSON_ALL for r in range(reps)]


def read_op(draw, kind, n):
    if kind == "dict":
        m = draw(st.sampled_from(["getitem", "get", "len", "iter", "call", "eq", "contains", "getitem_child"]))
        k = draw(st.sampled_from(KEYS))
        if m in ("getitem", "get", "contains"):
            return {"m": m, "a": enc([k])}
        if m == "getitem_child":
            return {"m": "getitem", "a": enc([draw(st.sampled_from(["H", "b"]))])}
        if m == "eq":
            return {"m": m, "a": enc([{"a": 1}])}
        return {"m": m, "a": []}
    m = draw(st.sampled_from(["getitem", "len", "iter", "call", "eq", "contains", "getitem_child"]))
    if m == "getitem":
        return {"m": m, "a": enc([draw(st.integers(-1, max(0, n - 1)))])}
    if m == "getitem_child":
        return {"m": "getitem", "a": enc([draw(st.integers(0, 2))])}
    if m == "contains":
        return {"m": m, "a": enc([draw(st.sampled_from([1, 2, "s"]))])}
    if m == "eq":
        return {"m": m, "a": enc([[1, 2]])}
    return {"m": m, "a": []}


def write_op(draw, kind, n):
    if kind == "dict":
        op = c09.dict_op(draw, restricted=True)
    else:
        op = c09.list_op(draw, n, restricted=False)
        while op["m"] in ("clear", "reset"):
            op = c09.list_op(draw, n, restricted=False)
    return op


def draw_eq_mix(draw, ci):
    """Steered family: ONE write changes a scalar entry and, in place, the content of a nested
    container; a reader on its own object compares the collection with a value that takes some
    entries from before and the others from after that write - a state the collection never had."""
    from ..plain import Slice
    kind = ci.kind
    inner = {"l": [1, 2], "d": {"a": 2}}
    inner2 = {"l": [1, 2, 9], "d": {"a": 3}}
    if kind == "dict":
        items = [("a", 1), ("b", [1])]
        items.insert(draw(st.sampled_from([0, 1, 2])), ("H", inner))
        doc = dict(items)
        new = {"a": 2}
        if draw(st.booleans()):
            new["b"] = [1, 2]
        if len(new) == 1 or draw(st.booleans()):
            new["H"] = inner2
        w = {"m": "update", "a": enc([new]), "h": 1}
        s1 = dict(doc, **copy.deepcopy(new))
        how = draw(st.sampled_from(["scalars_old", "scalars_old", "scalars_new", "random"]))
        pick = lambda k: (draw(st.booleans()) if how == "random" else  # noqa: E731
                          (how == "scalars_old") == (not isinstance(doc[k], (dict, list))))
        mix = {k: copy.deepcopy((doc if pick(k) else s1)[k]) for k in doc}
    else:
        pos = draw(st.sampled_from([1, 2]))
        doc = [1, 2, "s"]
        doc.insert(pos, inner)
        new = [9, copy.deepcopy(inner2)] if pos == 1 else [9, 8, copy.deepcopy(inner2)]
        w = {"m": "setitem", "a": enc([Slice(0, len(new), None), new]), "h": 1}
        s1 = new + doc[len(new):]
        how = draw(st.sampled_from(["scalars_old", "scalars_old", "scalars_new", "random"]))
        pick = lambda i: (draw(st.booleans()) if how == "random" else  # noqa: E731
                          (how == "scalars_old") == (not isinstance(doc[i], (dict, list))))
        mix = [copy.deepcopy((doc if pick(i) else s1)[i]) for i in range(len(doc))]
    r = [{"m": "eq", "a": enc([mix]), "h": 0}]
    if draw(st.booleans()):
        r.append({"m": draw(st.sampled_from(["call", "eq"])), "a": [] if r is None else [], "h": 0})
        if r[-1]["m"] == "eq":
            r[-1]["a"] = enc([s1])
    threads = [r, [w]]
    roles = ["r", "w"]
    p = {"property": ID, "class": ci.name, "docs": [enc(doc)], "root_kinds": [kind],
         "handles": [{"file": 0}, {"file": 0}], "kinds": [kind, kind], "threads": threads, "roles": roles,
         "family": "eq_mix"}
    if ci.buffered and draw(st.integers(0, 3)) == 0:
        p["buffered"] = {"cap": None}
    return p


def draw_program(draw, ci):
    kind = ci.kind
    if draw(st.sampled_from([0, 1, 2])) == 1:
        return draw_eq_mix(draw, ci)
    inner = {"l": [1, 2], "d": {"a": 2}}
    # position of the nested container among the scalars varies: reads that walk the content
    # (==, (), iter) meet scalars before or after the first nested child
    pos = draw(st.sampled_from([0, 1, 2]))
    if kind == "dict":
        items = [("a", 1), ("b", [1])]
        items.insert(pos, ("H", inner))
        doc = dict(items)
    else:
        doc = [1, 2, "s"]
        doc.insert(pos, inner)
    two = draw(st.booleans())
    handles = [{"file": 0}] + ([{"file": 0}] if two else [])
    kinds = [kind] * len(handles)
    T = draw(st.integers(2, 3))
    roles = ["r", "w"] + [draw(st.sampled_from(["r", "w"])) for _ in range(T - 2)]
    threads = []
    for role in roles:
        tops = []
        for _ in range(draw(st.integers(1, 2))):
            # with two objects the reader prefers the object the writer does not use
            h = draw(st.integers(0, len(handles) - 1))
            op = read_op(draw, kind, len(doc)) if role == "r" else write_op(draw, kind, len(doc))
            op["h"] = h
            tops.append(op)
        threads.append(tops)
    while sum(len(t) for t in threads) > 5:
        max(threads, key=len).pop()
    _eq_operands(draw, kind, doc, threads, roles)
    buffered = None
    if ci.buffered and draw(st.booleans()):
        buffered = {"cap": None}
    p = {"property": ID, "class": ci.name, "docs": [enc(doc)], "root_kinds": [kind],
         "handles": handles, "kinds": kinds, "threads": threads, "roles": roles}
    if buffered:
        p["buffered"] = buffered
    return p


def _eq_operands(draw, kind, doc, threads, roles):
    """Operands for ``==``: the initial content S0, the content S1 after one of the writers'
    operations, or a MIX that takes some top-level entries from S0 and the others from S1 - a value
    the collection never had, so ``True`` is an impossible read."""
    wops = [op for t, r in zip(threads, roles) if r == "w" for op in t]
    for t, r in zip(threads, roles):
        if r != "r":
            continue
        for op in t:
            if op["m"] != "eq" or not wops or draw(st.integers(0, 5)) == 0:
                continue
            w = draw(st.sampled_from(wops))
            s1 = copy.deepcopy(doc)
            try:
                model_apply(s1, kind, w["m"], dec(w["a"]), {})
            except Exception:
                pass
            choice = draw(st.sampled_from(["s0", "s1", "mix", "mix", "mix"]))
            if choice == "s0":
                v = copy.deepcopy(doc)
            elif choice == "s1":
                v = s1
            elif kind == "dict":
                v = {}
                for k in list(doc) + [k for k in s1 if k not in doc]:
                    src = doc if draw(st.booleans()) else s1
                    if k in src:
                        v[k] = copy.deepcopy(src[k])
            else:
                n = max(len(doc), len(s1))
                v = []
                for i in range(n):
                    src = doc if draw(st.booleans()) else s1
                    if i < len(src):
                        v.append(copy.deepcopy(src[i]))
            op["a"] = enc([v])


def apply_exclusions(program, excl, acc):
    if "reader_shares_object" not in excl:
        return program
    # known finding K3: a thread that reads must not share its object tree with another thread
    p = copy.deepcopy(program)
    if p.get("buffered") and CLASSES[p["class"]].buffered == "memory":
        # shared-memory buffering makes all objects on a file share ONE container while buffered:
        # reads that ITERATE over it (() / iter / == / list membership) can be torn by a writer (K3).
        # Single-step reads are kept, so races in the buffer bookkeeping itself stay observable.
        kind = p["kinds"][0]
        for t, r in zip(p["threads"], p["roles"]):
            if r != "r":
                continue
            for op in t:
                if op["m"] in ("call", "iter", "eq") or (op["m"] == "contains" and kind == "list"):
                    op["m"], op["a"] = "len", []
                    acc.excluded += 1
    users = {}
    for ti, (t, r) in enumerate(zip(p["threads"], p["roles"])):
        for op in t:
            users.setdefault(op["h"], set()).add((ti, r))
    clash = any(len(u) > 1 and any(r == "r" for _, r in u) for u in users.values())
    if not clash:
        return p
    acc.excluded += 1
    nread = 0
    for t, r in zip(p["threads"], p["roles"]):
        if r == "w":
            h = 0
        else:
            nread += 1
            h = nread
        while len(p["handles"]) <= h:
            p["handles"].append({"file": 0})
            p["kinds"].append(p["kinds"][0])
        for op in t:
            op["h"] = h
    return p


def run_shard(spec, seed, tier, active):
    conc.MAX_SCHEDULES[0] = 2500 if tier == "quick" else 20000
    ci = CLASSES[spec["cls"]]
    acc = Acc()
    n = 2 if tier == "quick" else 10
    excl = excl_of(active)

    first = [True]

    def one(data):
        draw = data.draw
        program = draw_program(draw, ci)
        if first[0]:
            first[0] = False
            return      # Hypothesis always starts with the minimal example: spend the budget elsewhere
        program = apply_exclusions(program, excl, acc)
        extra = []
        T = len(program["threads"])
        for _ in range(draw(st.integers(0, 6))):
            ks = draw(st.lists(st.integers(1, 900), min_size=2, max_size=3, unique=True))
            extra.append({"start": draw(st.integers(0, T - 1)),
                          "pre": {k: draw(st.integers(0, T - 1)) for k in ks}})
        before = acc.evaluations
        fail = c09.explore_program(program, acc, active, extra, real_time=True)
        acc.counters["programs"] += 1
        acc.counters["programs_buffered" if program.get("buffered") else "programs_unbuffered"] += 1
        acc.counters["programs_shared_object" if len(program["handles"]) == 1 else "programs_two_objects"] += 1
        if program.get("family"):
            acc.counters["family." + program["family"]] += 1
        if len(acc.samples) < 3:
            acc.samples.append({"program": {k: program[k] for k in ("class", "handles", "threads", "roles")},
                                "buffered": bool(program.get("buffered")),
                                "schedules_executed": acc.evaluations - before})
        if fail is not None:
            sc, d = fail
            raise CaseFailure({"property": ID, "engine": "sched", "program": program, "schedule": sc}, d)

    fail = hyp_search(one, n, seed)
    if fail is not None:
        acc.failures.append({"case": fail.case, "desc": fail.desc})
    acc.extra["programs"] = acc.counters.get("programs", 0)
    acc.extra["exhaustive_1p_programs"] = acc.counters.get("programs_exhaustive_1p", 0)
    acc.extra["all_sites_1p_programs"] = acc.counters.get("programs_all_sites_1p", 0)
    return acc.result()


def replay(case):
    program, sc = case["program"], case["schedule"]
    res = sched.explore(program, [sc])[0]
    return c09.judge(program, sc, res, real_time=True)
