"""C14: readers next to writers - no lost update, no impossible state, no error."""
import copy

from hypothesis import strategies as st

from .. import conc, sched
from ..classes import CLASSES, JSON_ALL
from ..plain import enc, h64
from ..runner import Acc, CaseFailure, excl_of, hyp_search
from . import c09

ID = "C14"
LEVEL = "exploration"
RULE = ("Hypothesis-generated programs with >=1 reader thread (1-2 of getitem/get/len/iter/()/==/in and "
        "navigation to a nested child) and >=1 writer thread (1-2 load-and-save mutators), on one "
        "shared object or on two objects bound to one file, unbuffered and inside buffer_backend() "
        "for both buffering strategies, for the 12 thread-capable JSON classes; executed under the "
        "deterministic scheduler (all single-preemption schedules when <=1600, otherwise all distinct "
        "preemption sites; plus sampled 2-3 preemption schedules). Oracle: the COMPLETE history, reads "
        "included, is linearizable against the plain model: some total order respecting program order "
        "and real-time precedence (recorded invoke/response steps) reproduces every outcome and the "
        "final file - i.e. each read returned a value the collection had between its start and end "
        "and no update was lost; no thread raised. Non-trivial = a thread preempted in the middle of "
        "an operation while another ran; distinct by (program, preemption site).")
ASSUMPTIONS = list(c09.ASSUMPTIONS)

KEYS = c09.KEYS
VALS = c09.VALS


def shards(tier):
    reps = 4 if tier == "quick" else 16
    return [{"cls": c.name, "rep": r} for c in JSON_ALL for r in range(reps)]


def read_op(draw, kind, n):
    if kind == "dict":
        m = draw(st.sampled_from(["getitem", "get", "len", "iter", "call", "eq", "contains", "getitem_child"]))
        k = draw(st.sampled_from(KEYS))
        if m in ("getitem", "get", "contains"):
            return {"m": m, "a": enc([k])}
        if m == "getitem_child":
            return {"m": "getitem", "a": enc([draw(st.sampled_from(["H", "b"]))])}
        if m == "eq":
            return {"m": m, "a": enc([{"a": 1}])}
        return {"m": m, "a": []}
    m = draw(st.sampled_from(["getitem", "len", "iter", "call", "eq", "contains", "getitem_child"]))
    if m == "getitem":
        return {"m": m, "a": enc([draw(st.integers(-1, max(0, n - 1)))])}
    if m == "getitem_child":
        return {"m": "getitem", "a": enc([0])}
    if m == "contains":
        return {"m": m, "a": enc([draw(st.sampled_from([1, 2, "s"]))])}
    if m == "eq":
        return {"m": m, "a": enc([[1, 2]])}
    return {"m": m, "a": []}


def write_op(draw, kind, n):
    if kind == "dict":
        op = c09.dict_op(draw, restricted=True)
    else:
        op = c09.list_op(draw, n, restricted=False)
        while op["m"] in ("clear", "reset"):
            op = c09.list_op(draw, n, restricted=False)
    return op


def draw_program(draw, ci):
    kind = ci.kind
    inner = {"l": [1, 2], "d": {"a": 2}}
    doc = {"H": inner, "a": 1, "b": [1]} if kind == "dict" else [inner, 1, 2, "s"]
    two = draw(st.booleans())
    handles = [{"file": 0}] + ([{"file": 0}] if two else [])
    kinds = [kind] * len(handles)
    T = draw(st.integers(2, 3))
    roles = ["r", "w"] + [draw(st.sampled_from(["r", "w"])) for _ in range(T - 2)]
    threads = []
    for role in roles:
        tops = []
        for _ in range(draw(st.integers(1, 2))):
            # with two objects the reader prefers the object the writer does not use
            h = draw(st.integers(0, len(handles) - 1))
            op = read_op(draw, kind, len(doc)) if role == "r" else write_op(draw, kind, len(doc))
            op["h"] = h
            tops.append(op)
        threads.append(tops)
    while sum(len(t) for t in threads) > 5:
        max(threads, key=len).pop()
    buffered = None
    if ci.buffered and draw(st.booleans()):
        buffered = {"cap": None}
    p = {"property": ID, "class": ci.name, "docs": [enc(doc)], "root_kinds": [kind],
         "handles": handles, "kinds": kinds, "threads": threads, "roles": roles}
    if buffered:
        p["buffered"] = buffered
    return p


def apply_exclusions(program, excl, acc):
    if "reader_shares_object" not in excl:
        return program
    # known finding K3: a thread that reads must not share its object tree with another thread
    p = copy.deepcopy(program)
    if p.get("buffered") and CLASSES[p["class"]].buffered == "memory":
        # shared-memory buffering makes all objects on a file share ONE container while buffered:
        # reads that ITERATE over it (() / iter / == / list membership) can be torn by a writer (K3).
        # Single-step reads are kept, so races in the buffer bookkeeping itself stay observable.
        kind = p["kinds"][0]
        for t, r in zip(p["threads"], p["roles"]):
            if r != "r":
                continue
            for op in t:
                if op["m"] in ("call", "iter", "eq") or (op["m"] == "contains" and kind == "list"):
                    op["m"], op["a"] = "len", []
                    acc.excluded += 1
    users = {}
    for ti, (t, r) in enumerate(zip(p["threads"], p["roles"])):
        for op in t:
            users.setdefault(op["h"], set()).add((ti, r))
    clash = any(len(u) > 1 and any(r == "r" for _, r in u) for u in users.values())
    if not clash:
        return p
    acc.excluded += 1
    nread = 0
    for t, r in zip(p["threads"], p["roles"]):
        if r == "w":
            h = 0
        else:
            nread += 1
            h = nread
        while len(p["handles"]) <= h:
            p["handles"].append({"file": 0})
            p["kinds"].append(p["kinds"][0])
        for op in t:
            op["h"] = h
    return p


def run_shard(spec, seed, tier, active):
    conc.MAX_SCHEDULES[0] = 2500 if tier == "quick" else 20000
    ci = CLASSES[spec["cls"]]
    acc = Acc()
    n = 2 if tier == "quick" else 10
    excl = excl_of(active)

    first = [True]

    def one(data):
        draw = data.draw
        program = draw_program(draw, ci)
        if first[0]:
            first[0] = False
            return      # Hypothesis always starts with the minimal example: spend the budget elsewhere
        program = apply_exclusions(program, excl, acc)
        extra = []
        T = len(program["threads"])
        for _ in range(draw(st.integers(0, 6))):
            ks = draw(st.lists(st.integers(1, 900), min_size=2, max_size=3, unique=True))
            extra.append({"start": draw(st.integers(0, T - 1)),
                          "pre": {k: draw(st.integers(0, T - 1)) for k in ks}})
        before = acc.evaluations
        fail = c09.explore_program(program, acc, active, extra, real_time=True)
        acc.counters["programs"] += 1
        acc.counters["programs_buffered" if program.get("buffered") else "programs_unbuffered"] += 1
        acc.counters["programs_shared_object" if len(program["handles"]) == 1 else "programs_two_objects"] += 1
        if len(acc.samples) < 3:
            acc.samples.append({"program": {k: program[k] for k in ("class", "handles", "threads", "roles")},
                                "buffered": bool(program.get("buffered")),
                                "schedules_executed": acc.evaluations - before})
        if fail is not None:
            sc, d = fail
            raise CaseFailure({"property": ID, "engine": "sched", "program": program, "schedule": sc}, d)

    fail = hyp_search(one, n, seed)
    if fail is not None:
        acc.failures.append({"case": fail.case, "desc": fail.desc})
    acc.extra["programs"] = acc.counters.get("programs", 0)
    acc.extra["exhaustive_1p_programs"] = acc.counters.get("programs_exhaustive_1p", 0)
    acc.extra["all_sites_1p_programs"] = acc.counters.get("programs_all_sites_1p", 0)
    return acc.result()


def replay(case):
    program, sc = case["program"], case["schedule"]
    res = sched.explore(program, [sc])[0]
    return c09.judge(program, sc, res, real_time=True)
