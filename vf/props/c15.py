"""C15: buffer size accounting is exact, bounded by capacity, and returns to zero."""
import json

from hypothesis import strategies as st

from .. import gen, ops, wm
from ..classes import BUFFERED, CLASSES
from ..plain import h64
from ..runner import Acc, excl_of, hyp_search

ID = "C15"
LEVEL = "exploration"
RULE = ("Hypothesis-generated programs for the 8 buffered classes over 2-4 existing files (one object "
        "each): enter/exit obj.buffered, enter/exit Class.buffer_backend() with and without a capacity "
        "argument (nested; one exit in six with an injected I/O error at the k-th file-system call of its "
        "flush), set_buffer_capacity(n) with n from {0, 1, about one document, about half "
        "the buffered total, huge}, every mutator and read at roots and nested handles, clear/reset "
        "also as first buffered access. After EVERY step the reported size must equal a "
        "documented-semantics model (serialized: sum of JSON-encoded bytes of the files that have a "
        "buffer entry; shared-memory: number of buffered files with unflushed modifications; an "
        "overflow at the load or at the save of an operation flushes everything), be <= capacity, be 0 "
        "outside contexts; the capacity must equal the model's capacity stack; every file without "
        "pending buffered modifications must be up to date on disk (a forced flush loses nothing). "
        "After an exit that failed with the injected error (all contexts left): a buffered session that "
        "only reads serves the file and writes nothing, a mutation is written through, and the size "
        "is 0 again. "
        "A last, enumerated part uses two different (related) buffered classes in one process: each "
        "class's size must be unaffected by the other's. Non-trivial = a capacity-forced flush, a capacity change inside a context, or clear/reset as "
        "first buffered access of a file; distinct by (class, kinds-of-steps sequence).")
ASSUMPTIONS = [
    "type-stable value alphabet (strings, ints >= 2) so that ==-equal values of other JSON types cannot "
    "change encoded sizes unnoticed",
    "sizes are the library's documented JSON text: json.dumps defaults, utf-8",
    "one object per file; files exist before the program starts",
]


class StableDom(gen.Dom):
    def scalars(self):
        return st.one_of(st.integers(2, 99), st.sampled_from(["a", "bb", "ccc", "x" * 20]))

    def keys(self):
        return self.keys_small()

    def keys_small(self):
        return st.sampled_from(["a", "b", "c", "d"])


def shards(tier):
    reps = 2 if tier == "quick" else 12
    return [{"cls": c.name, "rep": r} for c in BUFFERED for r in range(reps)] + [{"cls": "pairs", "mode": "pairs"}]


RELATED = [("BufferedJSONDict", "BufferedJSONAttrDict"), ("BufferedJSONList", "BufferedJSONAttrList"),
           ("MemoryBufferedJSONDict", "MemoryBufferedJSONAttrDict"),
           ("MemoryBufferedJSONList", "MemoryBufferedJSONAttrList"),
           ("BufferedJSONDict", "BufferedJSONList"), ("MemoryBufferedJSONDict", "MemoryBufferedJSONList")]


def run_pair_case(case):
    """Two different buffered classes used in one process: their buffers are separate, so each
    class's reported size and capacity must be unaffected by the other's."""
    import copy
    import shutil
    from ..classes import new_resource, reset_class_state
    from ..world import Mismatch
    a_ci, b_ci = CLASSES[case["a"]], CLASSES[case["b"]]
    d = wm.case_dir()
    reset_class_state()
    try:
        def obj(ci, name):
            r = new_resource(ci, d, name)
            r.write({"k": [1, 2, 3]} if ci.kind == "dict" else [1, 2, 3])
            return r.make(ci)

        def touch(o, ci):
            if ci.kind == "dict":
                o["x"] = "y" * 10
            else:
                o.append("y" * 10)
        A1, A2, B1 = obj(a_ci, "a1.json"), obj(a_ci, "a2.json"), obj(b_ci, "b1.json")
        ca = a_ci.cls.buffer_backend()
        ca.__enter__()
        touch(A1, a_ci)
        touch(A2, a_ci)
        size_a = a_ci.cls.get_current_buffer_size()
        if size_a == 0:
            raise Mismatch("pair_setup_no_buffered_data")
        if b_ci.cls.get_current_buffer_size() != 0:
            raise Mismatch("other_class_reports_foreign_size", cls=b_ci.name, size=b_ci.cls.get_current_buffer_size())
        cb = b_ci.cls.buffer_backend() if case["b_ctx"] == "cls" else B1.buffered
        cb.__enter__()
        B1()
        touch(B1, b_ci)
        exp_b = 1 if b_ci.buffered == "memory" else len(__import__("json").dumps(B1._to_base()).encode())
        got_b = b_ci.cls.get_current_buffer_size()
        if got_b != exp_b:
            raise Mismatch("size_mixed_between_classes", cls=b_ci.name, got=got_b, expected=exp_b, other=size_a)
        if a_ci.cls.get_current_buffer_size() != size_a:
            raise Mismatch("size_of_first_class_changed", got=a_ci.cls.get_current_buffer_size(), expected=size_a)
        order = [(cb, b_ci), (ca, a_ci)] if case["exit"] == "ba" else [(ca, a_ci), (cb, b_ci)]
        for c, ci in order:
            c.__exit__(None, None, None)
        for ci in (a_ci, b_ci):
            if ci.cls.get_current_buffer_size() != 0:
                raise Mismatch("size_nonzero_outside_contexts", cls=ci.name, size=ci.cls.get_current_buffer_size())
    finally:
        reset_class_state()
        shutil.rmtree(d, ignore_errors=True)


def _caps(draw, w):
    if w.strategy == "serialized":
        one = w._bytes(0)
        tot = max(1, w.model_size())
        return draw(st.sampled_from([0, 1, one, one + 1, tot // 2, tot, tot + 5, 10**9]))
    return draw(st.sampled_from([0, 1, 2, 3, 1000]))


def _gen_step(ci, dom, nfiles, script=None):
    script = list(script or [])

    def g(draw, w):
        roots = w.roots()
        if len(roots) < nfiles:
            # one object per file: (re)open the first file that has no live object
            have = {w.handles[i].res for i in roots}
            return {"t": "new", "r": min(r for r in range(nfiles) if r not in have), "id": w.next_id()}
        while script:
            kind, r = script.pop(0)
            tgt = roots[r % len(roots)]
            if kind == "enter_small":
                one = w._bytes(0) if w.strategy == "serialized" else 1
                return {"t": "enter_cls", "h": roots[0], "cap": one}
            if kind == "enter":
                return {"t": "enter_cls", "h": roots[0]}
            if kind == "enter_obj":
                return {"t": "enter_obj", "h": tgt}
            if kind == "setcap_small":
                return {"t": "setcap", "n": 0 if w.strategy == "memory" else max(1, w.model_size() // 2)}
            if kind == "exit":
                if w.stack:
                    return {"t": "exit"}
                continue
            if kind == "exit_fault":
                if w.stack:
                    return {"t": "exit", "fault_k": r}
                continue
            if kind == "enter_big":
                return {"t": "enter_cls", "h": roots[0], "cap": 10**9}
            if kind == "setcap_tiny":
                return {"t": "setcap", "n": 0 if w.strategy == "memory" else 1}
            if kind == "write":
                return gen.draw_mutator(draw, w, tgt, dom, methods=["setitem"] if w.handles[tgt].kind == "dict" else ["append"], p_raise=0)
            if kind == "clear":
                return gen.draw_mutator(draw, w, tgt, dom, methods=["clear", "reset"], p_raise=0)
            if kind == "read":
                return gen.draw_read(draw, w, tgt, dom, methods=["call", "len"], refs=False)
        c = draw(st.integers(0, 29))
        if c < 3 and len(w.stack) < 4:
            return {"t": "enter_obj", "h": draw(st.sampled_from(roots))}
        if c < 6 and len(w.stack) < 4:
            s = {"t": "enter_cls", "h": roots[0]}
            if draw(st.booleans()):
                s["cap"] = _caps(draw, w)
            return s
        if c < 10 and w.stack:
            if draw(st.integers(0, 5)) == 0:
                # the flush at this exit hits an I/O error at its k-th file-system call
                return {"t": "exit", "fault_k": draw(st.integers(1, 6))}
            return {"t": "exit"}
        if c < 13:
            return {"t": "setcap", "n": _caps(draw, w)}
        if c < 15:
            s = gen.draw_take(draw, w)
            if s is not None:
                return s
        if c == 29 and w.stack and len(roots) > 1:
            # the user drops every reference to an object inside a class-wide context and the garbage
            # collector runs: its buffered data still counts, is still flushed, and the size returns to 0
            cand = [i for i in roots if w.obj_depth.get(i, 0) == 0
                    and w.cls_depth.get(type(w.handles[i].real), 0) > 0]
            if cand:
                return {"t": "drop", "h": draw(st.sampled_from(cand))}
        hi = gen.pick_handle(draw, w)
        if hi is None:
            return None
        if draw(st.integers(0, 9)) < 7:
            methods = None
            if draw(st.integers(0, 4)) == 0:
                methods = ["clear", "reset"]
            return gen.draw_mutator(draw, w, hi, dom, methods=methods, p_raise=0)
        return gen.draw_read(draw, w, hi, dom, refs=False)
    return g


def _kinds(w):
    out = []
    nt = False
    depth = 0
    touched = set()
    for s in w.log:
        t = s["t"]
        if t in ("enter_obj", "enter_cls"):
            depth += 1
            out.append(t + ("+cap" if s.get("cap") is not None else ""))
            if s.get("cap") is not None and depth > 1:
                nt = True
        elif t in ("exit", "exit_at"):
            depth -= 1
            out.append("exit")
            if depth == 0:
                touched = set()
        elif t == "setcap":
            out.append("setcap")
            if depth > 0:
                nt = True
        elif t == "op":
            h = w.handles[s["h"]]
            out.append(s["m"])
            if depth > 0 and s["m"] in ("clear", "reset") and not h.path and h.res not in touched:
                nt = True
            if depth > 0:
                touched.add(h.res)
        elif t == "take" and depth > 0:
            touched.add(w.handles[s["h"]].res)
    return nt or w.forced > 0, out


def run_shard(spec, seed, tier, active):
    acc = Acc()
    if spec.get("mode") == "pairs":
        from ..world import Mismatch
        for a, b in RELATED + [(y, x) for x, y in RELATED]:
            for b_ctx in ("cls", "obj"):
                for ex in ("ab", "ba"):
                    case = {"property": ID, "engine": "c15pairs", "a": a, "b": b, "b_ctx": b_ctx, "exit": ex}
                    try:
                        run_pair_case(case)
                        d = None
                    except Mismatch as mm:
                        d = mm.describe()
                    acc.case([h64("pair", a, b, b_ctx, ex)], case if len(acc.samples) < 1 else None, {"pair.cases": 1})
                    if d is not None and len(acc.failures) < 2:
                        acc.failures.append({"case": case, "desc": d})
        acc.extra["class_pairs_exhaustive"] = True
        return acc.result()
    ci = CLASSES[spec["cls"]]
    dom = StableDom(ci)
    n = 60 if tier == "quick" else 500
    max_steps = 40 if tier == "quick" else 60

    def one(data):
        draw = data.draw
        nfiles = draw(st.integers(2, 4))
        docs = [draw(dom.doc(ci.kind)) for _ in range(nfiles)]
        script = None
        pick = draw(st.integers(0, 7))
        if pick == 1:
            # a collection buffered by its own context must still be flushed by a later forced flush
            # after a nested backend-wide context came and went
            script = [("enter_obj", 0), ("write", 0), ("enter", 0), ("exit", 0), ("setcap_small", 0),
                      ("write", 1), ("exit", 0)]
        elif pick == 0:
            # two sessions around a forced flush: entries that survive a forced flush must not
            # turn stale when their file is rewritten between the sessions
            a, b = 0, 1
            script = [("enter_small", 0), ("write", a), ("write", b), ("write", b), ("exit", 0),
                      (draw(st.sampled_from(["clear", "write"])), a), ("enter", 0), ("read", a),
                      ("write", a), ("exit", 0)]
        elif pick == 2:
            # a tiny permanent capacity, a (possibly nested) session with a large temporary one; its
            # exit restores the tiny capacity - which forces a flush - and that flush hits an I/O
            # error at its k-th file-system call (also AFTER the write itself)
            script = [("setcap_tiny", 0)] + ([("enter_obj", 0)] if draw(st.booleans()) else []) + \
                     [("enter_big", 0), ("write", 0)] + ([("write", 1)] if draw(st.booleans()) else []) + \
                     [("exit_fault", draw(st.integers(1, 14)))]
        w = wm.run_generated(ID, ci, docs, _gen_step(ci, dom, nfiles, script), draw, max_steps,
                             engine="acctworld")
        nt, kinds = _kinds(w)
        cnt = {"forced_flushes": w.forced, "cases_with_forced_flush": int(w.forced > 0),
               "exits_with_injected_io_error": w.events.get("faulted_exit", 0),
               "after_failed_exit.read_only_sessions": w.events.get("aftermath_read_session", 0),
               "after_failed_exit.write_through_probes": w.events.get("aftermath_write_probe", 0)}
        sample = {"class": ci.name, "initial": docs, "steps": w.log[:20]} if nt else None
        acc.case([h64(ci.name, kinds)] if nt else (), sample, cnt)

    fail = hyp_search(one, n, seed)
    if fail is not None:
        acc.failures.append(wm.minimize_world(fail))
    return acc.result()


def replay(case):
    if case.get("engine") == "c15pairs":
        from ..world import Mismatch
        try:
            run_pair_case(case)
        except Mismatch as mm:
            return mm.describe()
        return None
    return wm.replay_world(case)
