"""C15: buffer size accounting is exact, bounded by capacity, and returns to zero."""
import json

from hypothesis import strategies as st

from .. import gen, ops, wm
from ..classes import BUFFERED, CLASSES
from ..plain import h64
from ..runner import Acc, excl_of, hyp_search

ID = "C15"
LEVEL = "exploration"
RULE = ("Hypothesis-generated programs for the 8 buffered classes over 2-4 existing files (one object "
        "each): enter/exit obj.buffered, enter/exit Class.buffer_backend() with and without a capacity "
        "argument (nested; one exit in six with an injected I/O error at the k-th file-system call of its "
        "flush), set_buffer_capacity(n) with n from {0, 1, about one document, about half "
        "the buffered total, huge}, every mutator and read at roots and nested handles, clear/reset "
        "also as first buffered access. After EVERY step the reported size must equal a "
        "documented-semantics model (serialized: sum of JSON-encoded bytes of the files that have a "
        "buffer entry; shared-memory: number of buffered files with unflushed modifications; an "
        "overflow at the load or at the save of an operation flushes everything), be <= capacity, be 0 "
        "outside contexts; the capacity must equal the model's capacity stack; every file without "
        "pending buffered modifications must be up to date on disk (a forced flush loses nothing). "
        "Non-trivial = a capacity-forced flush, a capacity change inside a context, or clear/reset as "
        "first buffered access of a file; distinct by (class, kinds-of-steps sequence).")
ASSUMPTIONS = [
    "type-stable value alphabet (strings, ints >= 2) so that ==-equal values of other JSON types cannot "
    "change encoded sizes unnoticed",
    "sizes are the library's documented JSON text: json.dumps defaults, utf-8",
    "one object per file; files exist before the program starts",
]


class StableDom(gen.Dom):
    def scalars(self):
        return st.one_of(st.integers(2, 99), st.sampled_from(["a", "bb", "ccc", "x" * 20]))

    def keys(self):
        return self.keys_small()

    def keys_small(self):
        return st.sampled_from(["a", "b", "c", "d"])


def shards(tier):
    reps = 2 if tier == "quick" else 12
    return [{"cls": c.name, "rep": r} for c in BUFFERED for r in range(reps)]


def _caps(draw, w):
    if w.strategy == "serialized":
        one = w._bytes(0)
        tot = max(1, w.model_size())
        return draw(st.sampled_from([0, 1, one, one + 1, tot // 2, tot, tot + 5, 10**9]))
    return draw(st.sampled_from([0, 1, 2, 3, 1000]))


def _gen_step(ci, dom, nfiles, script=None):
    script = list(script or [])

    def g(draw, w):
        roots = w.roots()
        if len(roots) < nfiles:
            return {"t": "new", "r": len(roots), "id": w.next_id()}
        while script:
            kind, r = script.pop(0)
            tgt = roots[r % len(roots)]
            if kind == "enter_small":
                one = w._bytes(0) if w.strategy == "serialized" else 1
                return {"t": "enter_cls", "h": roots[0], "cap": one}
            if kind == "enter":
                return {"t": "enter_cls", "h": roots[0]}
            if kind == "exit":
                if w.stack:
                    return {"t": "exit"}
                continue
            if kind == "write":
                return gen.draw_mutator(draw, w, tgt, dom, methods=["setitem"] if w.handles[tgt].kind == "dict" else ["append"], p_raise=0)
            if kind == "clear":
                return gen.draw_mutator(draw, w, tgt, dom, methods=["clear", "reset"], p_raise=0)
            if kind == "read":
                return gen.draw_read(draw, w, tgt, dom, methods=["call", "len"], refs=False)
        c = draw(st.integers(0, 29))
        if c < 3 and len(w.stack) < 4:
            return {"t": "enter_obj", "h": draw(st.sampled_from(roots))}
        if c < 6 and len(w.stack) < 4:
            s = {"t": "enter_cls", "h": roots[0]}
            if draw(st.booleans()):
                s["cap"] = _caps(draw, w)
            return s
        if c < 10 and w.stack:
            if draw(st.integers(0, 5)) == 0:
                # the flush at this exit hits an I/O error at its k-th file-system call
                return {"t": "exit", "fault_k": draw(st.integers(1, 6))}
            return {"t": "exit"}
        if c < 13:
            return {"t": "setcap", "n": _caps(draw, w)}
        if c < 15:
            s = gen.draw_take(draw, w)
            if s is not None:
                return s
        hi = gen.pick_handle(draw, w)
        if hi is None:
            return None
        if draw(st.integers(0, 9)) < 7:
            methods = None
            if draw(st.integers(0, 4)) == 0:
                methods = ["clear", "reset"]
            return gen.draw_mutator(draw, w, hi, dom, methods=methods, p_raise=0)
        return gen.draw_read(draw, w, hi, dom, refs=False)
    return g


def _kinds(w):
    out = []
    nt = False
    depth = 0
    touched = set()
    for s in w.log:
        t = s["t"]
        if t in ("enter_obj", "enter_cls"):
            depth += 1
            out.append(t + ("+cap" if s.get("cap") is not None else ""))
            if s.get("cap") is not None and depth > 1:
                nt = True
        elif t in ("exit", "exit_at"):
            depth -= 1
            out.append("exit")
            if depth == 0:
                touched = set()
        elif t == "setcap":
            out.append("setcap")
            if depth > 0:
                nt = True
        elif t == "op":
            h = w.handles[s["h"]]
            out.append(s["m"])
            if depth > 0 and s["m"] in ("clear", "reset") and not h.path and h.res not in touched:
                nt = True
            if depth > 0:
                touched.add(h.res)
        elif t == "take" and depth > 0:
            touched.add(w.handles[s["h"]].res)
    return nt or w.forced > 0, out


def run_shard(spec, seed, tier, active):
    ci = CLASSES[spec["cls"]]
    dom = StableDom(ci)
    acc = Acc()
    n = 60 if tier == "quick" else 500
    max_steps = 40 if tier == "quick" else 60

    def one(data):
        draw = data.draw
        nfiles = draw(st.integers(2, 4))
        docs = [draw(dom.doc(ci.kind)) for _ in range(nfiles)]
        script = None
        if draw(st.integers(0, 3)) == 0:
            # two sessions around a forced flush: entries that survive a forced flush must not
            # turn stale when their file is rewritten between the sessions
            a, b = 0, 1
            script = [("enter_small", 0), ("write", a), ("write", b), ("write", b), ("exit", 0),
                      (draw(st.sampled_from(["clear", "write"])), a), ("enter", 0), ("read", a),
                      ("write", a), ("exit", 0)]
        w = wm.run_generated(ID, ci, docs, _gen_step(ci, dom, nfiles, script), draw, max_steps,
                             engine="acctworld")
        nt, kinds = _kinds(w)
        cnt = {"forced_flushes": w.forced, "cases_with_forced_flush": int(w.forced > 0),
               "exits_with_injected_io_error": w.events.get("faulted_exit", 0)}
        sample = {"class": ci.name, "initial": docs, "steps": w.log[:20]} if nt else None
        acc.case([h64(ci.name, kinds)] if nt else (), sample, cnt)

    fail = hyp_search(one, n, seed)
    if fail is not None:
        acc.failures.append(wm.minimize_world(fail))
    return acc.result()


def replay(case):
    return wm.replay_world(case)
