"""C16: values are copied in and out - no aliasing with user-held objects."""
import copy
import shutil

from hypothesis import strategies as st

from .. import gen, wm
from ..classes import ABSENT, ALL, CLASSES, new_resource, reset_class_state
from ..plain import dec, enc, h64, is_plain, depth, kind_of
from ..runner import Acc, CaseFailure, hyp_search
from ..world import Mismatch, get_path
from .c11 import base_doc, target_path
from .c12 import DICT_ENTRIES, LIST_ENTRIES, apply_entry, coords
from synced_collections import SyncedCollection

ID = "C16"
LEVEL = "exploration"
RULE = ("Hypothesis-generated cases for all 18 classes, three kinds. (a) inbound: a nested container "
        "argument is passed (the very object, not a copy) through every container-taking entry point "
        "{constructor, setitem, slice assignment, setdefault, update in 4 forms, reset, append, extend, "
        "insert, +=} at root/nested/depth-3 targets, unbuffered and - for buffered classes - inside a "
        "buffered context; afterwards EVERY container reachable from the argument is mutated in place; "
        "the object's (), a fresh object's () and the independently read resource must be unchanged. "
        "The argument may contain tuples, and (kind 'repeated') the SAME container object at several "
        "positions, which must end up as independent copies. (b) outbound: the results of (), values(), items(), get/[] , pop, popitem, del-after-get and "
        "list slices are checked to be built-in dict/list/scalars at every depth (for (), values(), "
        "items()) and every container reachable from them is mutated (plain data in place; removed "
        "synced children through their API); nothing may change. (c) cross-assignment: a synced root "
        "or nested child is assigned into another position of the same or of another collection (same "
        "or different family/backend); then source and destination are mutated in turn; they must "
        "evolve independently and both persist; (d) 'selfref': update()/reset()/item, slice and extend "
        "calls whose argument is built from the collection's OWN nested children (swap, rotation, "
        "duplication) - values as of the call, independent copies afterwards. Outbound cases also run "
        "inside buffered contexts, on documents that exist only in memory, with empty containers, and "
        "after a history in which a scalar entry became a container through update/reset/reload. Non-trivial = argument/result with >=2 nested "
        "container levels; distinct by (class, kind, entry/result kind, target, shape).")
ASSUMPTIONS = [
    "for pop/popitem/del the statement only requires that mutating the removed value changes nothing",
    "list slices return attached children: only the returned list itself is mutated",
    "Redis/MongoDB/Zarr via fakes",
]

OUT_KINDS = ["call", "call_root", "values", "items", "get", "getitem", "pop", "popitem", "del_after_get",
             "slice", "iter", "setdefault_existing"]
OUT_MODES = ["plain", "plain", "buf_obj", "buf_cls", "absent", "absent"]


def mutate_all(x, seen=None):
    """Mutate in place every container reachable from x (plain containers and detached nodes)."""
    if seen is None:
        seen = set()
    if id(x) in seen:
        return
    seen.add(id(x))
    if isinstance(x, SyncedCollection):
        kids = list(x._data.values()) if isinstance(x._data, dict) else list(x._data)
        for v in kids:
            mutate_all(v, seen)
        try:
            if isinstance(x._data, dict):
                x["__mutated__"] = 1
            else:
                x.append("__mutated__")
        except Exception:  # noqa: BLE001 - a detached node may refuse; that changes nothing either
            pass
    elif isinstance(x, dict):
        for v in list(x.values()):
            mutate_all(v, seen)
        x["__mutated__"] = 1
        for k in list(x):
            if k != "__mutated__":
                del x[k]
                break
    elif isinstance(x, list):
        for v in list(x):
            mutate_all(v, seen)
        x.append("__mutated__")
        if len(x) > 1:
            del x[0]
    elif isinstance(x, tuple):
        for v in x:
            mutate_all(v, seen)


def deep_plain_types(x, path="$"):
    t = type(x)
    if t in (str, int, float, bool, type(None)):
        return None
    if t is dict:
        for k, v in x.items():
            if type(k) is not str:
                return f"{path}: key of type {type(k).__name__}"
            r = deep_plain_types(v, f"{path}[{k!r}]")
            if r:
                return r
        return None
    if t is list:
        for i, v in enumerate(x):
            r = deep_plain_types(v, f"{path}[{i}]")
            if r:
                return r
        return None
    return f"{path}: {t.__name__}"


def _setup(ci, d, doc, name="d.json"):
    res = new_resource(ci, d, name)
    res.write(copy.deepcopy(doc))
    return res, res.make(ci)


def _same(what, got, exp, **kw):
    if got != exp:
        raise Mismatch(what, got=got, expected=exp, **kw)


def case_inbound(c):
    ci = CLASSES[c["class"]]
    entry, target, want = c["entry"], c["target"], c["want"]
    val = dec(c["value"])
    buffered = c.get("buffered") and ci.buffered and entry != "ctor"
    d = wm.case_dir()
    reset_class_state()
    try:
        doc = base_doc(ci.kind)
        path = target_path(ci.kind, target, want)
        arg = copy.deepcopy(val)
        if entry == "reset":
            arg = {"r": arg} if want == "dict" else [arg]
        if entry == "ctor":
            data = {"c": arg} if ci.kind == "dict" else [arg]
            res = new_resource(ci, d)
            obj = res.make(ci, data=data)
            if ci.kind == "dict":
                obj["z"] = 0
            else:
                obj.append(0)
            user = data
            key = None
        else:
            res, obj = _setup(ci, d, doc)
            ctx = None
            if buffered:
                ctx = type(obj).buffer_backend() if c.get("ctx") == "cls" else obj.buffered
                ctx.__enter__()
            key = "p" if want == "dict" else 0
            user = arg
            _apply(ci, obj, res, entry, path, arg, key)
        snap = obj()
        disk = res.read() if not buffered else None
        mutate_all(user)
        _same("inbound_alias_object", obj(), snap, entry=entry)
        if buffered and entry != "ctor":
            ctx.__exit__(None, None, None)
            _same("inbound_alias_object_after_exit", obj(), snap, entry=entry)
        else:
            _same("inbound_alias_backend", res.read(), disk, entry=entry)
        _same("inbound_alias_fresh_object", res.make(ci)(), snap, entry=entry)
        _same("inbound_backend_vs_object", res.read(), snap, entry=entry)
    finally:
        reset_class_state()
        shutil.rmtree(d, ignore_errors=True)


def _apply(ci, obj, res, entry, path, arg, key):
    """Like c12.apply_entry but passes the user's object itself (no copy)."""
    t = obj
    for k in path:
        t = t[k]
    if entry == "setitem":
        t[key] = arg
    elif entry == "setdefault":
        t.setdefault("fresh_key", arg)
    elif entry == "update_map":
        t.update({key: arg})
    elif entry == "update_pairs":
        t.update([(key, arg)])
    elif entry == "update_kw":
        t.update(**{key: arg})
    elif entry == "update_both":
        t.update({"u": arg}, **{key: arg})
    elif entry == "reset":
        t.reset(arg)
    elif entry == "setslice":
        t[0:1] = [arg]
    elif entry == "append":
        t.append(arg)
    elif entry == "extend":
        t.extend([arg])
    elif entry == "insert":
        t.insert(0, arg)
    elif entry == "iadd":
        t += [arg]


def case_outbound(c):
    """Results handed out must be detached. ``mode``: 'plain' (unbuffered, file exists), 'buf_obj' /
    'buf_cls' (inside a buffered context: nothing reloads from the file between the calls), 'absent'
    (the document only exists in memory - constructed with data= on a missing resource - so no
    reload can repair an aliased container before the next save)."""
    ci = CLASSES[c["class"]]
    doc = dec(c["doc"])
    kind = c["out"]
    tpath = tuple(dec(c["path"]))
    mode = c.get("mode", "plain")
    if mode in ("buf_obj", "buf_cls") and not ci.buffered:
        mode = "plain"
    d = wm.case_dir()
    reset_class_state()
    ctx = None
    try:
        if mode == "absent":
            res = new_resource(ci, d, "d.json")
            obj = res.make(ci, data=copy.deepcopy(doc))
        else:
            res, obj = _setup(ci, d, doc)
        if mode in ("buf_obj", "buf_cls"):
            ctx = type(obj).buffer_backend() if mode == "buf_cls" else obj.buffered
            ctx.__enter__()
        t = obj
        for k in tpath:
            t = t[k]
        model = copy.deepcopy(doc)
        mt = get_path(model, tpath)
        tk = "dict" if isinstance(mt, dict) else "list"
        prep = c.get("prep")
        if prep == "other" and mode != "plain":
            prep = "update"     # (an unbuffered second writer on a buffered file is C07's subject)
        if prep and tk == "dict" and mode != "absent":
            # history first: an existing SCALAR entry of the target becomes a container through a
            # bulk path (update / reset / a reload after another object wrote it)
            sk = [k for k, v in mt.items() if not isinstance(v, (dict, list))]
            if sk:
                k_ = sk[0]
                newc = {"n": [1, {"m": 2}]}
                if prep == "update":
                    t.update({k_: copy.deepcopy(newc)})
                elif prep == "reset":
                    t.reset({**copy.deepcopy(mt), k_: copy.deepcopy(newc)})
                else:
                    o2 = res.make(ci)
                    for k in tpath:
                        o2 = o2[k]
                    o2[k_] = copy.deepcopy(newc)
                mt[k_] = copy.deepcopy(newc)
        keys = list(mt.keys()) if tk == "dict" else list(range(len(mt)))
        k0 = keys[c.get("ki", 0) % len(keys)] if keys else None
        must_be_plain = False
        if kind == "call":
            r = t()
            must_be_plain = True
        elif kind == "call_root":
            r = obj()
            must_be_plain = True
        elif kind == "values" and tk == "dict":
            r = list(t.values())
            must_be_plain = True
        elif kind == "items" and tk == "dict":
            r = [list(i) for i in t.items()]
            must_be_plain = True
        elif kind == "get" and tk == "dict" and k0 is not None:
            r = None
            v = t.get(k0)
            del t[k0]
            del mt[k0]
            r = v
        elif kind in ("getitem", "del_after_get") and k0 is not None:
            v = t[k0]
            del t[k0]
            del mt[k0]
            r = v
        elif kind == "pop" and k0 is not None:
            r = t.pop(k0)
            mt.pop(k0)
        elif kind == "popitem" and tk == "dict" and keys:
            k, r = t.popitem()
            mt.pop(k)
        elif kind == "slice" and tk == "list":
            r = t[0:2]
            if not isinstance(r, list):
                raise Mismatch("slice_not_list", got=type(r).__name__)
            r.append("__mutated__")
            if len(r) > 1:
                del r[0]
            r = None
        elif kind == "iter" and tk == "list":
            r = list(iter(t))
            r.append("__mutated__")
            r = None
        elif kind == "setdefault_existing" and tk == "dict" and k0 is not None:
            # returns the attached child: mutating the *argument default* must not matter
            dflt = {"x": [1]}
            t.setdefault(k0, dflt)
            r = dflt
        else:
            return False
        if must_be_plain:
            bad = deep_plain_types(r)
            if bad:
                raise Mismatch("result_not_plain_builtin", out=kind, found=bad)
            exp = mt if kind == "call" else model if kind == "call_root" else None
            _same("result_value", r if exp is not None else None, exp)
        if r is not None:
            mutate_all(r)
        _same("outbound_alias_object", obj(), model, out=kind, mode=mode)
        if ctx is not None:
            # a second result must be independent of the first as well
            r2 = obj()
            mutate_all(r2)
            _same("outbound_alias_second_result", obj(), model, out=kind, mode=mode)
            ctx.__exit__(None, None, None)
            ctx = None
            _same("outbound_alias_object_after_exit", obj(), model, out=kind, mode=mode)
        if mode == "absent":
            # the next save must write the model, not the user's edits
            if ci.kind == "dict":
                obj["zz_after"] = 0
                model["zz_after"] = 0
            else:
                obj.append(0)
                model.append(0)
            _same("outbound_alias_object_after_save", obj(), model, out=kind, mode=mode)
        _same("outbound_alias_backend", res.read(), model, out=kind, mode=mode)
        _same("outbound_alias_fresh", res.make(ci)(), model, out=kind, mode=mode)
        return True
    finally:
        if ctx is not None:
            try:
                ctx.__exit__(None, None, None)
            except Exception:  # noqa: BLE001
                pass
        reset_class_state()
        shutil.rmtree(d, ignore_errors=True)


def case_cross(c):
    a_ci, b_ci = CLASSES[c["class"]], CLASSES[c["other"]]
    doc_a, doc_b = dec(c["doc"]), dec(c["doc_b"])
    spath = tuple(dec(c["path"]))
    d = wm.case_dir()
    reset_class_state()
    try:
        res_a, A = _setup(a_ci, d, doc_a, "a.json")
        same = c.get("same_collection")
        if same:
            res_b, B, doc_b, b_ci = res_a, A, doc_a, a_ci
        else:
            res_b, B = _setup(b_ci, d, doc_b, "b.json")
        src = A
        for k in spath:
            src = src[k]
        ma = copy.deepcopy(doc_a)
        mb = ma if same else copy.deepcopy(doc_b)
        sval = copy.deepcopy(get_path(ma, spath))
        if b_ci.attr and _has_dot(sval):
            return False
        # destination: a new top-level position of B
        if b_ci.kind == "dict":
            B["dest"] = src
            mb["dest"] = copy.deepcopy(sval)
            dest = lambda: B["dest"]  # noqa: E731
            mdest = lambda: mb["dest"]  # noqa: E731
        else:
            B.append(src)
            mb.append(copy.deepcopy(sval))
            dest = lambda: B[len(mb) - 1]  # noqa: E731
            mdest = lambda: mb[-1]  # noqa: E731
        _same("cross_initial_b", B(), mb)
        _same("cross_initial_b_backend", res_b.read(), mb)
        # mutate the source through its API
        msrc = get_path(ma, spath)
        if isinstance(msrc, dict):
            src["__src__"] = [1]
            msrc["__src__"] = [1]
            if same and not spath:
                pass
        else:
            src.append({"__src__": 1})
            msrc.append({"__src__": 1})
        _same("cross_source_mutation_leaked_into_dest", B(), mb)
        _same("cross_a_after_source_mutation", A(), ma)
        # mutate the destination
        dd, md = dest(), mdest()
        if isinstance(md, dict):
            dd["__dst__"] = 2
            md["__dst__"] = 2
        else:
            dd.append("__dst__")
            md.append("__dst__")
        _same("cross_dest_mutation_leaked_into_source", A(), ma)
        _same("cross_b_after_dest_mutation", B(), mb)
        _same("cross_a_backend", res_a.read(), ma)
        _same("cross_b_backend", res_b.read(), mb)
        _same("cross_a_fresh", res_a.make(a_ci)(), ma)
        _same("cross_b_fresh", res_b.make(b_ci)(), mb)
        return True
    finally:
        reset_class_state()
        shutil.rmtree(d, ignore_errors=True)


def case_repeated(c):
    """The SAME container object sits at several positions of one argument: after storing it every
    position must be an independent copy (a write through one position leaves the others alone)."""
    ci = CLASSES[c["class"]]
    inner = dec(c["inner"])
    shape = c["shape"]
    buffered = c.get("buffered") and ci.buffered
    d = wm.case_dir()
    reset_class_state()
    try:
        res, obj = _setup(ci, d, {} if ci.kind == "dict" else [])
        row = copy.deepcopy(inner)
        if shape == "list2":
            arg = [row, row]
        elif shape == "list3":
            arg = [row] * 3
        elif shape == "dict2":
            arg = {"a": row, "b": row}
        elif shape == "nested":
            arg = [[row], {"k": row}]
        else:
            arg = (row, [row])
        ctx = None
        if buffered:
            ctx = obj.buffered
            ctx.__enter__()
        if ci.kind == "dict":
            if c.get("via") == "update":
                obj.update({"v": arg})
            else:
                obj["v"] = arg
            stored = lambda: obj["v"]  # noqa: E731
            model = {"v": copy.deepcopy(arg)}
            mstored = model["v"]
        else:
            if c.get("via") == "update":
                obj.extend([arg])
            else:
                obj.append(arg)
            stored = lambda: obj[0]  # noqa: E731
            model = [copy.deepcopy(arg)]
            mstored = model[0]
        from ..plain import norm
        model = norm(model)
        mstored = model["v"] if ci.kind == "dict" else model[0]

        def first(x):
            # path to the first occurrence of the repeated container inside the stored value
            if shape in ("list2", "list3"):
                return x[0]
            if shape == "dict2":
                return x["a"]
            if shape == "nested":
                return x[0][0]
            return x[0]
        tgt, mtgt = first(stored()), first(mstored)
        if isinstance(mtgt, dict):
            tgt["__one__"] = 1
            mtgt["__one__"] = 1
        else:
            tgt.append("__one__")
            mtgt.append("__one__")
        _same("repeated_object_positions_alias_each_other", obj(), model, shape=shape)
        if ctx is not None:
            ctx.__exit__(None, None, None)
        _same("repeated_object_backend", res.read(), model, shape=shape)
        _same("repeated_object_fresh", res.make(ci)(), model, shape=shape)
        return True
    finally:
        reset_class_state()
        shutil.rmtree(d, ignore_errors=True)


def case_selfref(c):
    """The argument is built from the collection's OWN nested children (a swap, a duplication, a
    rotation): like on built-in containers the values are taken as they were when the call was
    made, each position ends up with an independent copy, and later changes to one position leave
    the others alone."""
    ci = CLASSES[c["class"]]
    d = wm.case_dir()
    reset_class_state()
    try:
        kids = [{"n": 0, "t": [0]}, {"n": 1, "t": [1]}, {"n": 2, "t": [2]}]
        perm = c["perm"]                    # indices of the old children, e.g. [1, 0, 0]
        via = c["via"]
        if ci.kind == "dict":
            keys = ["a", "b", "c"]
            doc = {k: copy.deepcopy(v) for k, v in zip(keys, kids)}
            res, obj = _setup(ci, d, doc)
            model = copy.deepcopy(doc)
            new = {keys[i]: obj[keys[p_]] for i, p_ in enumerate(perm)}
            mnew = {keys[i]: copy.deepcopy(model[keys[p_]]) for i, p_ in enumerate(perm)}
            if via == "update":
                obj.update(new)
                model.update(mnew)
            elif via == "reset":
                obj.reset(new)
                model = mnew
            else:
                for k_, v_ in new.items():
                    obj[k_] = v_            # the values were taken before the first assignment
                model.update(mnew)
            first = keys[0]
        else:
            doc = copy.deepcopy(kids)
            res, obj = _setup(ci, d, doc)
            model = copy.deepcopy(doc)
            new = [obj[p_] for p_ in perm]
            mnew = [copy.deepcopy(model[p_]) for p_ in perm]
            if via == "reset":
                obj.reset(new)
                model = mnew
            elif via == "slice":
                obj[0:len(perm)] = new
                model[0:len(perm)] = mnew
            else:
                obj.extend(new)
                model.extend(mnew)
            first = 0
        _same("selfref_values", obj(), model, via=via, perm=perm)
        _same("selfref_backend", res.read(), model, via=via, perm=perm)
        # positions are independent afterwards
        tgt = obj[first]
        tgt["__one__"] = 1
        model[first]["__one__"] = 1
        _same("selfref_positions_alias_each_other", obj(), model, via=via, perm=perm)
        _same("selfref_fresh", res.make(ci)(), model, via=via, perm=perm)
        return True
    finally:
        reset_class_state()
        shutil.rmtree(d, ignore_errors=True)


def _has_dot(v):
    if isinstance(v, dict):
        return any("." in k or _has_dot(x) for k, x in v.items())
    if isinstance(v, list):
        return any(_has_dot(x) for x in v)
    return False


def run_case(c):
    k = c["kind"]
    if k == "inbound":
        case_inbound(c)
        return True
    if k == "outbound":
        return case_outbound(c)
    if k == "repeated":
        return case_repeated(c)
    if k == "selfref":
        return case_selfref(c)
    return case_cross(c)


def _fails(c):
    try:
        run_case(c)
    except Mismatch as mm:
        return mm.describe()
    return None


def shards(tier):
    reps = 1 if tier == "quick" else 6
    return [{"cls": c.name, "rep": r} for c in ALL for r in range(reps)]


def run_shard(spec, seed, tier, active):
    from ..world import container_paths
    ci = CLASSES[spec["cls"]]
    dom = gen.Dom(ci)
    acc = Acc()
    cs = coords(ci)
    n = 150 if tier == "quick" else 1000
    others = [x.name for x in ALL]

    def one(data):
        draw = data.draw
        kind = draw(st.sampled_from(["inbound", "inbound", "outbound", "outbound", "cross", "repeated", "selfref"]))
        if kind == "selfref":
            n_ = draw(st.integers(2, 3))
            c = {"kind": kind, "class": ci.name, "perm": draw(st.lists(st.integers(0, 2), min_size=n_, max_size=n_)),
                 "via": draw(st.sampled_from(["update", "reset", "setitem"] if ci.kind == "dict" else ["reset", "slice", "extend"]))}
            try:
                run_case(c)
            except Mismatch as mm:
                raise CaseFailure(dict(c, property=ID, engine="c16"), mm.describe())
            acc.case([h64(ci.name, kind, c["via"], c["perm"])], c, {f"kind={kind}": 1, f"selfref.{c['via']}": 1})
            return
        if kind == "repeated":
            inner = draw(st.one_of(dom.lists(3), dom.dicts(3)))
            c = {"kind": kind, "class": ci.name, "inner": enc(inner),
                 "shape": draw(st.sampled_from(["list2", "list3", "dict2", "nested", "tuple"])),
                 "via": draw(st.sampled_from(["setitem", "update"])), "buffered": draw(st.booleans())}
            try:
                run_case(c)
            except Mismatch as mm:
                raise CaseFailure(dict(c, property=ID, engine="c16"), mm.describe())
            acc.case([h64(ci.name, kind, c["shape"], c["via"], bool(c["buffered"] and ci.buffered))], c,
                     {f"kind={kind}": 1, f"repeated.{c['shape']}": 1})
            return
        if kind == "inbound":
            e, t, w = draw(st.sampled_from(cs))
            val = gen.tupled(draw, draw(dom.containers(max_leaves=8)), p=0.3)
            c = {"kind": kind, "class": ci.name, "entry": e, "target": t, "want": w,
                 "value": enc(val), "buffered": draw(st.booleans()),
                 "ctx": draw(st.sampled_from(["obj", "cls"]))}
            shape = (e, t, depth(val), bool(c["buffered"] and ci.buffered))
            nt = depth(val) >= 2
        elif kind == "outbound":
            doc = draw(dom.doc(ci.kind))
            if draw(st.integers(0, 2)) == 0:
                # an EMPTY container somewhere ("nothing to convert" shortcuts)
                e = draw(st.sampled_from([{}, [], {"e": {}}, [[]]]))
                if ci.kind == "dict":
                    doc["empty"] = e
                else:
                    doc.insert(draw(st.integers(0, len(doc))), e)
            paths = container_paths(doc)
            mode = draw(st.sampled_from(OUT_MODES))
            c = {"kind": kind, "class": ci.name, "doc": enc(doc), "out": draw(st.sampled_from(OUT_KINDS)),
                 "path": enc(list(draw(st.sampled_from(paths)))), "ki": draw(st.integers(0, 5)),
                 "mode": mode, "prep": draw(st.sampled_from([None, None, "update", "reset", "other"]))}
            shape = (c["out"], len(dec(c["path"])), depth(doc), mode if (ci.buffered or mode == "absent") else "plain")
            nt = depth(doc) >= 2
        else:
            oname = draw(st.sampled_from(others))
            jd = gen.Dom(ci)
            jd.attr = ci.attr or CLASSES[oname].attr
            jd.mongo = jd.mongo or CLASSES[oname].backend == "mongo"
            doc = draw(jd.doc(ci.kind))
            paths = container_paths(doc)
            c = {"kind": kind, "class": ci.name, "other": oname, "doc": enc(doc),
                 "doc_b": enc(draw(gen.Dom(CLASSES[oname]).doc(CLASSES[oname].kind))),
                 "path": enc(list(draw(st.sampled_from(paths)))),
                 "same_collection": draw(st.integers(0, 3)) == 0}
            shape = ("cross", oname if not c["same_collection"] else "same", len(dec(c["path"])))
            nt = depth(doc) >= 2
        try:
            done = run_case(c)
        except Mismatch as mm:
            raise CaseFailure(dict(c, property=ID, engine="c16"), mm.describe())
        if done is False:
            return
        acc.case([h64(ci.name, kind, shape)] if nt else (), c if nt else None,
                 {f"kind={kind}": 1, f"{kind}.{shape[0]}": 1})

    fail = hyp_search(one, n, seed)
    if fail is not None:
        acc.failures.append({"case": fail.case, "desc": fail.desc})
    return acc.result()


def replay(case):
    return _fails(case)
