"""C17: reading never writes."""
import os

from hypothesis import strategies as st

from .. import audit, gen, ops, wm
from ..bufworld import BufWorld
from ..classes import ABSENT, ALL, CLASSES
from ..plain import enc, h64
from ..runner import Acc, hyp_search
from ..world import Mismatch

ID = "C17"
LEVEL = "exploration"
RULE = ("Hypothesis-generated sequences of read operations only (item access, get, len, iteration, "
        "reversed, membership, index/count, keys/values/items, (), ==/!=/</<=/>/>= with plain and synced "
        "operands, bool, repr, str; at roots and at nested children reached by getitem/get/iteration) "
        "and, for buffered classes, arbitrary well-nested enter/exit of obj.buffered and "
        "buffer_backend() contexts, on an EXISTING or a MISSING resource, for all 18 classes and 1-2 "
        "objects. After every step: an audit hook saw no write-mode open, rename, remove, truncate, "
        "utime or mkdir below the scratch directory; the file's (bytes, inode, size, mtime_ns) and "
        "the directory listing are unchanged; a missing resource is still missing; the fake stores "
        "counted zero set/replace_one/require_dataset/__setitem__ calls. Non-trivial = >=3 reads "
        "incl. one on a nested child, or a context entry+exit around reads, or a missing resource; "
        "distinct by (class, op kinds, context shape, resource state).")
ASSUMPTIONS = [
    "audit events cover Python-level file operations (open/os.*); the fakes count every mutating call",
    "setdefault() is a mutator and not part of the read surface",
]


class ReadOnlyWorld(BufWorld):
    def __init__(self, *a, **kw):
        kw["check_frozen"] = False
        kw["check_resource"] = False
        super().__init__(*a, **kw)
        self.base = [(r.raw(), r.stat() if hasattr(r, "stat") else None, r.write_count())
                     for r in self.res]
        self.listing = sorted(os.listdir(self.dir))
        audit.start(self.dir)

    def step(self, s):
        done = super().step(s)
        self.verify(s)
        return done

    def verify(self, s):
        ev = audit.peek()
        if ev:
            raise Mismatch("write_event", step=s, events=[list(e) for e in ev[:4]])
        for i, r in enumerate(self.res):
            now = (r.raw(), r.stat() if hasattr(r, "stat") else None, r.write_count())
            if now != self.base[i]:
                what = "resource_created" if self.base[i][0] is None and now[0] is not None else \
                    "resource_touched"
                raise Mismatch(what, step=s, before=repr(self.base[i])[:160], after=repr(now)[:160])
        ls = sorted(os.listdir(self.dir))
        if ls != self.listing:
            raise Mismatch("directory_changed", step=s, before=self.listing, after=ls)

    def check_res(self, r, step=None):
        return

    def final_check(self):
        self.unwind()
        self.verify("final")
        audit.stop()


def shards(tier):
    reps = 1 if tier == "quick" else 6
    return [{"cls": c.name, "rep": r} for c in ALL for r in range(reps)]


def _gen_step(ci, dom):
    def g(draw, w):
        roots = w.roots()
        if not roots:
            return {"t": "new", "r": 0, "id": w.next_id()}
        c = draw(st.integers(0, 19))
        if c == 0 and len(roots) < 2:
            return {"t": "new", "r": 0, "id": w.next_id()}
        if ci.buffered:
            if c < 3 and len(w.stack) < 4:
                return {"t": "enter_obj", "h": draw(st.sampled_from(roots))}
            if c < 5 and len(w.stack) < 4:
                return {"t": "enter_cls", "h": draw(st.sampled_from(roots))}
            if c < 8 and w.stack:
                return {"t": "exit"}
        if c < 11:
            s = gen.draw_take(draw, w)
            if s is not None:
                if s["via"] == "setdefault":
                    s["via"] = "get"
                return s
        hi = gen.pick_handle(draw, w)
        if hi is None:
            return None
        h = w.handles[hi]
        methods = ops.READS[h.kind] + ops.EXTRA_READ
        m = draw(st.sampled_from(methods))
        if m in ops.EXTRA_READ:
            return {"t": "op", "h": hi, "m": m, "a": []}
        return gen.draw_read(draw, w, hi, dom, methods=[m], refs=True)
    return g


def _classify(w, init):
    reads = sum(1 for s in w.log if s["t"] == "op")
    nested = any(s["t"] == "op" and w.handles[s["h"]].path for s in w.log)
    ctx = any(s["t"].startswith("enter") for s in w.log) and any(s["t"] == "exit" for s in w.log)
    missing = init is ABSENT
    kinds = sorted({s["m"] for s in w.log if s["t"] == "op"})
    shape = "".join("o" if s["t"] == "enter_obj" else "c" if s["t"] == "enter_cls" else ")"
                    for s in w.log if s["t"] in ("enter_obj", "enter_cls", "exit"))
    nt = (reads >= 3 and nested) or (ctx and reads >= 1) or (missing and reads >= 1)
    return nt, kinds, shape, missing


def run_shard(spec, seed, tier, active):
    ci = CLASSES[spec["cls"]]
    dom = gen.Dom(ci)
    acc = Acc()
    n = 100 if tier == "quick" else 600
    wm_engine_register()

    def one(data):
        draw = data.draw
        init = draw(st.one_of(st.just(ABSENT), dom.doc(ci.kind), dom.doc(ci.kind)))
        try:
            w = wm.run_generated(ID, ci, [init], _gen_step(ci, dom), draw, 30, engine="roworld",
                                 check_outcome=False)
        finally:
            audit.stop()
        nt, kinds, shape, missing = _classify(w, init)
        cnt = {"missing_resource": int(missing), "with_context": int(bool(shape))}
        for k in kinds:
            cnt["read." + k] = 1
        sample = {"class": ci.name, "initial": repr(init), "steps": w.log[:14]} if nt else None
        acc.case([h64(ci.name, kinds, shape, missing)] if nt else (), sample, cnt)

    fail = hyp_search(one, n, seed)
    if fail is not None:
        acc.failures.append(wm.minimize_world(fail))
    return acc.result()


def wm_engine_register():
    wm.EXTRA_ENGINES["roworld"] = ReadOnlyWorld


def replay(case):
    wm_engine_register()
    try:
        return wm.replay_world(case)
    finally:
        audit.stop()
