"""C17: reading never writes."""
import os

from hypothesis import strategies as st

from .. import audit, gen, ops, wm
from ..bufworld import BufWorld
from ..classes import ABSENT, ALL, CLASSES
from ..plain import enc, h64
from ..runner import Acc, hyp_search
from ..world import Mismatch

ID = "C17"
LEVEL = "exploration"
RULE = ("Hypothesis-generated sequences of read operations only (item access, get, len, iteration, "
        "reversed, membership, index/count, keys/values/items, (), ==/!=/</<=/>/>= with plain and synced "
        "operands, bool, repr, str; at roots and at nested children reached by getitem/get/iteration) "
        "and, for buffered classes, arbitrary well-nested enter/exit of obj.buffered and "
        "buffer_backend() contexts, on an EXISTING or a MISSING resource, for all 18 classes and 1-2 "
        "objects. After every step: an audit hook saw no write-mode open, rename, remove, truncate, "
        "utime or mkdir below the scratch directory; the file's (bytes, inode, size, mtime_ns) and "
        "the directory listing are unchanged; a missing resource is still missing; the fake stores "
        "counted zero set/replace_one/require_dataset/__setitem__ calls. Half of the JSON cases add a "
        "BYSTANDER object on a second file that is mutated (and, for buffered classes, capacity changes "
        "that force flushes) while the watched object is only read, and an outside writer that "
        "re-stores the watched file with the same data in another textual form (key order, "
        "whitespace); the outside writer may also DELETE the watched file after it was read (optionally "
        "leaving a complete '._<uuid>_<name>' temporary file of an interrupted atomic write behind), and the "
        "flush of the modified bystander may fail with an injected I/O error, after which a buffered "
        "session that only reads must write nothing to any file. Non-trivial = >=3 reads "
        "incl. one on a nested child, or a context entry+exit around reads, or a missing resource; "
        "distinct by (class, op kinds, context shape, resource state).")
ASSUMPTIONS = [
    "audit events cover Python-level file operations (open/os.*); the fakes count every mutating call",
    "setdefault() is a mutator and not part of the read surface",
]


class ReadOnlyWorld(BufWorld):
    write_probe_after_fault = False

    def __init__(self, *a, **kw):
        kw["check_frozen"] = False
        kw["check_resource"] = False
        super().__init__(*a, **kw)
        self.rebase()
        audit.start(self.dir)

    def _watched(self):
        # resource 0 is only ever read; a second resource (if any) is a writable bystander
        return [0]

    def rebase(self):
        self.base = {i: (self.res[i].raw(), self.res[i].stat() if hasattr(self.res[i], "stat") else None,
                         self.res[i].write_count()) for i in self._watched()}
        self.listing = self._ls()

    def _ls(self):
        return sorted(n for n in os.listdir(self.dir) if "r1.json" not in n)

    def _s_reformat(self, s):
        """Outside writer stores the SAME data in another textual form (key order, whitespace)."""
        import json
        r = self.res[0]
        if r.backend != "json" or r.raw() is None:
            return False
        audit.stop()

        def rev(x):
            if isinstance(x, dict):
                return {k: rev(x[k]) for k in reversed(list(x))}
            if isinstance(x, list):
                return [rev(v) for v in x]
            return x
        r.write(None, raw=json.dumps(rev(self.docs[0]), indent=s.get("indent", 1)).encode())
        audit.start(self.dir)
        self.rebase()

    def _s_remove(self, s):
        """Someone else deletes the watched resource (objects keep what they loaded)."""
        r = self.res[0]
        if r.backend != "json" or r.raw() is None:
            return False
        # every object loads first (reads), so that all of them hold the same content afterwards;
        # objects created later would see an empty collection, so none are created (see _s_new)
        for i in self.roots():
            if self.handles[i].res == 0:
                self.handles[i].real()
        self.verify(s)
        self.removed = True
        audit.stop()
        os.remove(r.path)
        if s.get("leftover"):
            # ... and what a writer that crashed between writing its temporary file and renaming it
            # leaves behind: a complete '._<uuid4>_<name>' file next to the missing target
            import json
            import uuid
            tmp = os.path.join(os.path.dirname(r.path), f"._{uuid.UUID(int=s['leftover'])}_{os.path.basename(r.path)}")
            with open(tmp, "w") as f:
                json.dump(self.docs[0], f)
            self.events["leftover_temp_file"] += 1
        audit.start(self.dir)
        self.rebase()
        self.events["removed_by_outsider"] += 1

    def _s_new(self, s):
        if s.get("r", 0) == 0 and getattr(self, "removed", False):
            return False
        return super()._s_new(s)

    def step(self, s):
        done = super().step(s)
        self.verify(s)
        return done

    def verify(self, s):
        ev = [e for e in audit.peek() if "r1.json" not in " ".join(map(str, e[1:]))]
        if ev:
            raise Mismatch("write_event", step=s, events=[list(e) for e in ev[:4]])
        for i in self._watched():
            r = self.res[i]
            now = (r.raw(), r.stat() if hasattr(r, "stat") else None, r.write_count())
            if now != self.base[i]:
                what = "resource_created" if self.base[i][0] is None and now[0] is not None else \
                    "resource_touched"
                raise Mismatch(what, step=s, before=repr(self.base[i])[:160], after=repr(now)[:160])
        ls = self._ls()
        if ls != self.listing:
            raise Mismatch("directory_changed", step=s, before=self.listing, after=ls)

    def check_res(self, r, step=None):
        return

    def _s_op(self, s):
        # mutators are only legal on the bystander resource
        i = s["h"]
        if self.usable(i) and ops.is_mutator(self.handles[i].kind, s["m"]) and self.handles[i].res == 0:
            return False
        return super()._s_op(s)

    def final_check(self):
        self.unwind()
        self.verify("final")
        if not getattr(self, "dead", False) and self.ci.buffered:
            # whatever happened before (also writes to the bystander inside nested contexts): once
            # every context is left, a buffered session that only READS writes nothing, to any file
            for i in self.roots():
                h = self.handles[i]
                res = self.res[h.res]
                raw0 = (res.raw(), res.stat() if hasattr(res, "stat") else None)
                for kind in ("obj", "cls"):
                    ctx = h.real.buffered if kind == "obj" else type(h.real).buffer_backend()
                    with ctx:
                        h.real()
                    raw1 = (res.raw(), res.stat() if hasattr(res, "stat") else None)
                    if raw1 != raw0:
                        raise Mismatch("read_only_session_wrote", res=h.res, context=kind,
                                       before=repr(raw0)[:160], after=repr(raw1)[:160])
                self.events["final_read_only_sessions"] += 1
            self.verify("final-sessions")
        audit.stop()


def shards(tier):
    reps = 1 if tier == "quick" else 6
    return [{"cls": c.name, "rep": r} for c in ALL for r in range(reps)]


def _gen_step(ci, dom, script=None):
    script = list(script or [])

    def g(draw, w):
        roots = w.roots()
        if not roots:
            return {"t": "new", "r": 0, "id": w.next_id()}
        if script:
            # two objects on the watched file with overlapping per-object contexts: one reads, the
            # other never loads (or loaded long ago) and leaves its context first
            if len([i for i in roots if w.handles[i].res == 0]) < 2:
                return {"t": "new", "r": 0, "id": w.next_id()}
            a, b = [i for i in roots if w.handles[i].res == 0][:2]
            kind = script.pop(0)
            if kind == "read_b_unbuffered":
                return gen.draw_read(draw, w, b, dom, methods=["call"], refs=False)
            if kind == "reformat":
                return {"t": "reformat", "indent": 2}
            if kind == "enter_a":
                return {"t": "enter_obj", "h": a}
            if kind == "read_a":
                return gen.draw_read(draw, w, a, dom, methods=["call", "len"], refs=False)
            if kind == "enter_b":
                return {"t": "enter_obj", "h": b}
            if kind == "exit":
                return {"t": "exit"} if w.stack else None
        c = draw(st.integers(0, 19))
        if c == 0 and len(roots) < 2:
            return {"t": "new", "r": 0, "id": w.next_id()}
        by = [i for i in roots if w.handles[i].res == 1]
        if len(w.res) > 1 and ci.backend == "json":
            if not by and draw(st.integers(0, 3)) == 0:
                return {"t": "new", "r": 1, "id": w.next_id()}
            if by and c in (12, 13):
                # the bystander is written while the watched object is only read
                return gen.draw_mutator(draw, w, draw(st.sampled_from(by)), dom, p_raise=0)
            if by and ci.buffered and c == 18 and len(w.stack) < 4:
                # ... also inside its OWN context nested in whatever is open
                return {"t": "enter_obj", "h": draw(st.sampled_from(by))}
            if ci.buffered and c == 14:
                return {"t": "setcap", "n": draw(st.sampled_from([0, 1, 2, 10, 10**9]))}
            if ci.buffered and by and c == 16 and w.stack:
                # the flush of the (modified) bystander fails at its k-th file-system call; afterwards
                # sessions that only read must not write anything, to any file
                return {"t": "exit", "fault_k": draw(st.integers(1, 4))}
        if ci.backend == "json" and c == 17 and draw(st.booleans()):
            if draw(st.booleans()):
                return {"t": "remove", "leftover": draw(st.integers(1, 2**64))}
            return {"t": "remove"}
        if ci.backend == "json" and c == 15:
            return {"t": "reformat", "indent": draw(st.sampled_from([None, 1, 4]))}
        if ci.buffered:
            if c < 3 and len(w.stack) < 4:
                return {"t": "enter_obj", "h": draw(st.sampled_from(roots))}
            if c < 5 and len(w.stack) < 4:
                return {"t": "enter_cls", "h": draw(st.sampled_from(roots))}
            if c < 8 and w.stack:
                return {"t": "exit"}
        if c < 11:
            s = gen.draw_take(draw, w)
            if s is not None:
                if s["via"] == "setdefault":
                    s["via"] = "get"
                return s
        hi = gen.pick_handle(draw, w, among=[i for i in w.attached_handles() if w.handles[i].res == 0] or None)
        if hi is None:
            return None
        h = w.handles[hi]
        methods = ops.READS[h.kind] + ops.EXTRA_READ
        m = draw(st.sampled_from(methods))
        if m in ops.EXTRA_READ:
            return {"t": "op", "h": hi, "m": m, "a": []}
        return gen.draw_read(draw, w, hi, dom, methods=[m], refs=True)
    return g


def _classify(w, init):
    reads = sum(1 for s in w.log if s["t"] == "op")
    nested = any(s["t"] == "op" and w.handles[s["h"]].path for s in w.log)
    ctx = any(s["t"].startswith("enter") for s in w.log) and any(s["t"] == "exit" for s in w.log)
    missing = init is ABSENT
    kinds = sorted({s["m"] for s in w.log if s["t"] == "op"})
    shape = "".join("o" if s["t"] == "enter_obj" else "c" if s["t"] == "enter_cls" else ")"
                    for s in w.log if s["t"] in ("enter_obj", "enter_cls", "exit"))
    nt = (reads >= 3 and nested) or (ctx and reads >= 1) or (missing and reads >= 1)
    return nt, kinds, shape, missing


def run_shard(spec, seed, tier, active):
    ci = CLASSES[spec["cls"]]
    dom = gen.Dom(ci)
    acc = Acc()
    n = 100 if tier == "quick" else 600
    wm_engine_register()

    def one(data):
        draw = data.draw
        init = draw(st.one_of(st.just(ABSENT), dom.doc(ci.kind), dom.doc(ci.kind)))
        try:
            docs = [init]
            if ci.backend == "json" and draw(st.booleans()):
                docs = [init, draw(dom.doc(ci.kind))]
            script = None
            if ci.buffered and draw(st.integers(0, 3)) == 0:
                script = draw(st.sampled_from([
                    ["enter_a", "read_a", "enter_b", "exit", "exit"],
                    ["read_b_unbuffered", "reformat", "enter_a", "read_a", "enter_b", "exit", "exit"],
                    ["enter_a", "enter_b", "read_a", "exit", "exit"],
                ]))
            w = wm.run_generated(ID, ci, docs, _gen_step(ci, dom, script), draw, 30, engine="roworld",
                                 check_outcome=False)
        finally:
            audit.stop()
        nt, kinds, shape, missing = _classify(w, init)
        cnt = {"missing_resource": int(missing), "with_context": int(bool(shape))}
        cnt["resource_removed_by_outsider"] = w.events.get("removed_by_outsider", 0)
        cnt["bystander_flush_failed"] = w.events.get("faulted_exit", 0)
        cnt["read_only_sessions_after_failed_flush"] = w.events.get("aftermath_read_session", 0)
        for k in kinds:
            cnt["read." + k] = 1
        sample = {"class": ci.name, "initial": repr(init), "steps": w.log[:14]} if nt else None
        acc.case([h64(ci.name, kinds, shape, missing)] if nt else (), sample, cnt)

    fail = hyp_search(one, n, seed)
    if fail is not None:
        acc.failures.append(wm.minimize_world(fail))
    return acc.result()


def wm_engine_register():
    wm.EXTRA_ENGINES["roworld"] = ReadOnlyWorld


def replay(case):
    wm_engine_register()
    try:
        return wm.replay_world(case)
    finally:
        audit.stop()
