"""C18: nested containers keep the root's family; attribute access equals item access."""
import copy
import shutil

from hypothesis import strategies as st

from .. import gen, ops, wm
from ..bufworld import BufWorld
from ..classes import ABSENT, ALL, CLASSES, new_resource, reset_class_state
from ..plain import dec, enc, h64, kind_of
from ..runner import Acc, CaseFailure, hyp_search, minimize
from ..world import Mismatch, container_paths, get_path
from .c02 import draw_rewrite
from synced_collections import SyncedCollection

ID = "C18"
LEVEL = "exploration"
RULE = ("Two generated families. (a) closure: C01-style Hypothesis programs on all 18 classes (every "
        "mutator at any depth, outside rewrites that change kinds, for buffered classes also context "
        "enter/exit); after EVERY step every container node reachable from the root object is an "
        "instance of exactly the root family's dict or list class and its _root is the root; at the "
        "end the deepest container is reached by fresh navigation and mutated, and the resource must "
        "show it. (b) attribute access: for the three attribute-access dict classes, programs of "
        "get/set/del in attribute syntax (getattr/setattr/delattr) and item syntax on attr-dict nodes "
        "at depth 0-3 (also below attr lists), with keys from {identifiers, non-identifiers, '', '_x', "
        "every protected name, every public method/property name, dunders}. Oracle (b): for keys that "
        "are not protected, not dunders and not class attributes, attribute ops have exactly the "
        "outcome, content and resource effect of the item op on a plain dict (missing -> "
        "AttributeError instead of KeyError); attribute get of a protected name returns the very "
        "object object.__getattribute__ returns; item set/get/del of protected/method/dunder names "
        "touch only the data: vars(node) stays identical by identity and inside _PROTECTED_KEYS for "
        "every attr-dict node, and the object keeps working; re-assigning a protected name's current "
        "value through attribute syntax never creates a data key and obj.filename = path retargets the "
        "object (later writes land in the new file). (c) enumerated: two objects of DIFFERENT classes "
        "of one data type (plain/attr, buffered/memory-buffered siblings) bound to ONE file, "
        "unbuffered / per-object buffered / class-buffered, both access orders: each object only ever "
        "contains nodes of its own family. Non-trivial = depth>=1, or a "
        "protected/method/dunder name; distinct by (class, part, key class, op, syntax, depth).")
ASSUMPTIONS = [
    "attribute set/del of live internals (_data, _root, filename, ...) reconfigures the object by design "
    "and is not generated",
    "Redis/MongoDB/Zarr via fakes",
]


# ------------------------------------------------------------------ (a) family closure


class FamilyWorld(BufWorld):
    def __init__(self, *a, **kw):
        kw["check_frozen"] = False
        super().__init__(*a, **kw)

    def step(self, s):
        done = super().step(s)
        if done is not False:
            self.verify_family(s)
        return done

    def verify_family(self, s):
        dc, lc = self.ci.dict_cls, self.ci.list_cls
        for i in self.roots():
            root = self.handles[i].real
            stack = [(root, ())]
            seen = {}
            while stack:
                node, path = stack.pop()
                if id(node) in seen:
                    # every position owns its node; a node reachable twice (or a cycle) means a
                    # container was adopted instead of converted
                    raise Mismatch("node_reachable_at_two_positions", step=s, path=list(path),
                                   first_path=list(seen[id(node)]))
                seen[id(node)] = path
                if type(node) not in (dc, lc):
                    raise Mismatch("wrong_family", step=s, path=list(path), got=type(node).__name__,
                                   expected=[dc.__name__, lc.__name__])
                if path and node._root is not root and self.ci.buffered != "memory":
                    raise Mismatch("wrong_root", step=s, path=list(path))
                data = node._data
                items = data.items() if isinstance(data, dict) else enumerate(data)
                for k, v in items:
                    if isinstance(v, SyncedCollection):
                        stack.append((v, path + (k,)))
                    elif isinstance(v, (dict, list, tuple, set)):
                        raise Mismatch("plain_container_inside", step=s, path=list(path + (k,)),
                                       got=type(v).__name__)

    def final_check(self):
        self.unwind()
        super().final_check()
        # mutate the deepest container reached by fresh navigation: it must persist
        for i in self.roots():
            h = self.handles[i]
            doc = self.docs[h.res]
            paths = container_paths(doc)
            deep = max(paths, key=len)
            node = h.real
            for k in deep:
                node = node[k]
            mnode = get_path(doc, deep)
            if isinstance(mnode, dict):
                node["zz_persist"] = 1
                mnode["zz_persist"] = 1
            else:
                node.append("zz_persist")
                mnode.append("zz_persist")
            self.check_res(h.res, step="deepest_mutation")
            self.verify_family("final")
            break


def _gen_a(ci, dom):
    def g(draw, w):
        roots = w.roots()
        if not roots:
            return {"t": "new", "r": 0, "id": w.next_id()}
        c = draw(st.integers(0, 19))
        if c == 19 and len(w.res) < 2:
            # a second collection of the same class on another resource: its nested children are
            # stored into the first one (and vice versa) - every node must end up rooted where it lives
            return {"t": "newres", "cls": ci.name, "doc": enc(draw(dom.doc(ci.kind)))}
        if len(w.res) > 1 and not any(w.handles[i].res == 1 for i in roots):
            return {"t": "new", "r": 1, "id": w.next_id()}
        if ci.buffered:
            if c < 2 and len(w.stack) < 3:
                return {"t": "enter_obj", "h": roots[0]}
            if c < 3 and len(w.stack) < 3:
                return {"t": "enter_cls", "h": roots[0]}
            if c < 5 and w.stack:
                return {"t": "exit"}
        if c < 8 and not w.stack:
            s = draw_rewrite(draw, w, dom)
            s.pop("meta", None)
            return s
        if c < 11:
            s = gen.draw_take(draw, w)
            if s is not None:
                return s
        hi = gen.pick_handle(draw, w)
        if hi is None:
            return None
        if draw(st.integers(0, 9)) < 8:
            return gen.draw_mutator(draw, w, hi, dom, p_raise=1, tuples=True, refs=len(w.res) > 1)
        return gen.draw_read(draw, w, hi, dom, refs=False)
    return g


# ------------------------------------------------------------------ (b) attribute access

ATTR_DICTS = ["JSONAttrDict", "BufferedJSONAttrDict", "MemoryBufferedJSONAttrDict"]
IDENT = ["a", "b", "foo", "x1", "data", "new"]
NONIDENT = ["1a", "a-b", "with space", "", "é", "class", "🙂"]
UNDERS = ["_x", "_private", "_"]
DUNDERS = ["__x__", "__len__", "__foo", "__dict__"]


def key_class(cls, k):
    if k in cls._PROTECTED_KEYS:
        return "protected"
    if k.startswith("__"):
        return "dunder"
    if hasattr(cls, k):
        return "class_attr"
    return "free"


def attr_doc():
    inner = {"a": 1, "foo": {"b": 2, "deep": {"x1": [1, {"q": 1}]}}, "lst": [{"a": 1, "in": {"z": 0}}, 5]}
    return copy.deepcopy(inner)


NODE_PATHS = [(), ("foo",), ("foo", "deep"), ("lst", 0), ("lst", 0, "in")]


def run_attr_case(case):
    ci = CLASSES[case["class"]]
    cls = ci.cls
    d = wm.case_dir()
    reset_class_state()
    try:
        res = new_resource(ci, d)
        model = attr_doc()
        res.write(copy.deepcopy(model))
        root = res.make(ci)
        writer = res.make(ci)       # a second object on the same file (steps with via == "other")
        retained = {}               # path -> child node kept by the user (case["retain"])
        prot = cls._PROTECTED_KEYS
        for n, st_ in enumerate(case["steps"]):
            path = tuple(dec(st_["path"]))
            try:
                mnode = get_path(model, path)
            except LookupError:
                continue
            if not isinstance(mnode, dict):
                continue
            other = st_.get("via") == "other"
            if case.get("retain") and not other and path in retained:
                node = retained[path]       # no fresh navigation: nothing has loaded since
            else:
                node = writer if other else root
                for k in path:
                    node = node[k]
                if case.get("retain") and not other:
                    retained[path] = node
            if type(node) is not cls:
                raise Mismatch("wrong_family", path=list(path), got=type(node).__name__)
            k, op, syn = st_["k"], st_["op"], st_["syn"]
            if other:
                syn = "item"
            if op in ("set", "del"):
                # a position that is (re)assigned or removed: children retained below it are unspecified
                for rp in [rp for rp in retained if rp[:len(path) + 1] == path + (k,)]:
                    del retained[rp]
            kc = key_class(cls, k)
            val = dec(st_.get("v"))
            before_vars = {n_: id(v) for n_, v in vars(node).items() if n_ != "_data"}
            # ---- the real call
            try:
                if syn == "attr":
                    if op == "get":
                        r = getattr(node, k)
                    elif op == "set":
                        setattr(node, k, copy.deepcopy(val))
                        r = None
                    else:
                        delattr(node, k)
                        r = None
                else:
                    if op == "get":
                        r = node[k]
                    elif op == "set":
                        node[k] = copy.deepcopy(val)
                        r = None
                    else:
                        del node[k]
                        r = None
                real = ("ok", r)
            except Exception as e:  # noqa: BLE001
                real = ("raise", type(e))
            # ---- expectation
            if syn == "attr" and kc == "protected" and "protected_nonattr_get" in case.get("excl", ()):
                try:
                    object.__getattribute__(node, k)
                except AttributeError:
                    # known finding K4: a protected name without attribute reads the data
                    continue
            if syn == "attr" and kc == "protected":
                # (only get is generated) must be the object's own attribute
                if op != "get":
                    raise Mismatch("harness_generated_protected_attr_write")
                try:
                    own = object.__getattribute__(node, k)
                    exp = ("ok", own)
                except AttributeError:
                    exp = ("raise", AttributeError)
                if exp[0] == "ok":
                    if real[0] != "ok" or real[1] is not own:
                        if not (real[0] == "ok" and real[1] == own and callable(own)):
                            raise Mismatch("protected_attr_not_object_itself", step=n, key=k,
                                           got=repr(real)[:120])
                else:
                    if real[0] != "raise" or not issubclass(real[1], AttributeError):
                        raise Mismatch("protected_missing_attr_not_attributeerror", step=n, key=k,
                                       got=repr(real)[:120])
            else:
                # item semantics on the plain model
                try:
                    if op == "get":
                        mr = ("ok", mnode[k])
                    elif op == "set":
                        mnode[k] = copy.deepcopy(val)
                        mr = ("ok", None)
                    else:
                        del mnode[k]
                        mr = ("ok", None)
                except KeyError:
                    mr = ("raise", AttributeError if syn == "attr" else KeyError)
                if mr[0] != real[0]:
                    raise Mismatch("attr_item_outcome", step=n, key=k, op=op, syn=syn, key_class=kc,
                                   got=repr(real)[:120], expected=repr(mr)[:120])
                if mr[0] == "raise":
                    if not issubclass(real[1], mr[1]):
                        raise Mismatch("attr_item_exception", step=n, key=k, op=op, syn=syn,
                                       got=real[1].__name__, expected=mr[1].__name__)
                else:
                    got = real[1]._to_base() if isinstance(real[1], SyncedCollection) else real[1]
                    if op == "get" and got != mr[1]:
                        raise Mismatch("attr_item_value", step=n, key=k, syn=syn, got=got,
                                       expected=mr[1])
            # ---- internals undisturbed, everywhere
            after_vars = {n_: id(v) for n_, v in vars(node).items() if n_ != "_data"}
            if after_vars != before_vars:
                raise Mismatch("internals_disturbed", step=n, key=k, op=op, syn=syn,
                               changed=sorted(set(after_vars.items()) ^ set(before_vars.items()))[:4])
            _check_vars(root, cls, prot)
            if not other:
                # (after a write through the OTHER object nothing is loaded through the user's
                # tree, so that the next access through a retained child is the first one)
                got = root()
                if got != model:
                    raise Mismatch("content", step=n, key=k, op=op, syn=syn, got=got, expected=model)
            disk = res.read()
            if disk != model:
                raise Mismatch("resource", step=n, key=k, op=op, syn=syn, got=disk, expected=model)
        # protected names always address the object itself, also for attribute SET:
        # re-assigning the current value must never create a data key
        for node_path in NODE_PATHS:
            try:
                mnode = get_path(model, node_path)
            except LookupError:
                continue
            if not isinstance(mnode, dict):
                continue
            node = root
            for k in node_path:
                node = node[k]
            for pname in sorted(prot):
                try:
                    cur = object.__getattribute__(node, pname)
                except AttributeError:
                    continue
                try:
                    setattr(node, pname, cur)
                except AttributeError:
                    pass   # read-only property: still the object, not the data
                if root() != model:
                    raise Mismatch("protected_attr_set_reached_data", name=pname, path=list(node_path),
                                   got=root(), expected=model)
        if case.get("retarget"):
            p2 = res.path + ".moved"
            root.filename = p2
            if root.filename != p2:
                raise Mismatch("filename_attribute_set_did_not_retarget", got=root.filename)
            if "filename" in model:
                pass
            elif "filename" in root():
                raise Mismatch("filename_attribute_set_reached_data", got=root())
            root["after_move"] = 1
            model["after_move"] = 1
            import json as _json
            try:
                moved = _json.loads(open(p2, "rb").read())
            except FileNotFoundError:
                raise Mismatch("write_after_retarget_not_in_new_file")
            if moved != model:
                raise Mismatch("write_after_retarget_wrong_content", got=moved, expected=model)
            del model["after_move"]
            root.filename = res.path      # back to the original file, which never saw 'after_move'
            if root() != model:
                raise Mismatch("content_after_moving_back", got=root(), expected=model)
        # still fully usable
        root["zz_final"] = {"k": 1}
        model["zz_final"] = {"k": 1}
        if res.make(ci)() != model:
            raise Mismatch("not_usable_afterwards")
    finally:
        reset_class_state()
        shutil.rmtree(d, ignore_errors=True)


def _check_vars(root, cls, prot):
    stack = [root]
    while stack:
        node = stack.pop()
        if type(node) is cls:
            extra = set(vars(node)) - set(prot)
            if extra:
                raise Mismatch("instance_attribute_outside_protected_keys", names=sorted(extra))
        data = node._data
        for v in (data.values() if isinstance(data, dict) else data):
            if isinstance(v, SyncedCollection):
                stack.append(v)


def _fails_attr(case):
    try:
        run_attr_case(case)
    except Mismatch as mm:
        return mm.describe()
    return None


def _draw_attr_case(draw, cname):
    cls = CLASSES[cname].cls
    prot = sorted(cls._PROTECTED_KEYS)
    pub = sorted(n for n in dir(cls) if not n.startswith("_"))
    steps = []
    for _ in range(draw(st.integers(1, 10))):
        pool = draw(st.sampled_from(["ident", "ident", "nonident", "under", "prot", "pub", "dunder"]))
        k = draw(st.sampled_from({"ident": IDENT, "nonident": NONIDENT, "under": UNDERS, "prot": prot,
                                  "pub": pub, "dunder": DUNDERS}[pool]))
        kc = key_class(cls, k)
        syn = draw(st.sampled_from(["attr", "item"]))
        op = draw(st.sampled_from(["get", "set", "del", "get"]))
        if syn == "attr":
            if kc == "protected":
                op = "get"
            elif kc in ("dunder", "class_attr"):
                syn = "item"      # equivalence is not claimed; item ops must still leave internals alone
        steps.append({"path": enc(list(draw(st.sampled_from(NODE_PATHS)))), "k": k, "op": op,
                      "syn": syn, "v": enc(draw(st.sampled_from([1, "s", None, {"n": [1]}, [1, {"m": 2}], {}])))})
    retain = draw(st.booleans())
    if retain:
        # a second object on the file writes between the user's accesses through retained children
        for s_ in steps:
            if s_["op"] in ("set", "del") and draw(st.integers(0, 2)) == 0:
                s_["via"] = "other"
        if draw(st.booleans()):
            # scripted: read through a retained child, the other object changes / adds / removes
            # that key, read again through the SAME retained child (attribute and item syntax)
            P = draw(st.sampled_from([p_ for p_ in NODE_PATHS if p_]))
            k = draw(st.sampled_from(["a", "b", "z", "x1", "foo", "new"]))
            val = enc(draw(st.sampled_from([5, "t", None, {"n": [2]}])))
            syn2 = draw(st.sampled_from(["attr", "attr", "item"]))
            steps += [{"path": enc(list(P)), "k": k, "op": "get", "syn": draw(st.sampled_from(["attr", "item"])), "v": val},
                      {"path": enc(list(P)), "k": k, "op": draw(st.sampled_from(["set", "set", "del"])), "syn": "item",
                       "v": val, "via": "other"},
                      {"path": enc(list(P)), "k": k, "op": "get", "syn": syn2, "v": val}]
    return {"property": ID, "engine": "c18attr", "class": cname, "steps": steps,
            "retarget": draw(st.booleans()), "retain": retain}


# ------------------------------------------------------------------ (c) sibling classes on one file

SIBLINGS = [("MemoryBufferedJSONDict", "MemoryBufferedJSONAttrDict"),
            ("BufferedJSONDict", "BufferedJSONAttrDict"),
            ("MemoryBufferedJSONList", "MemoryBufferedJSONAttrList"),
            ("BufferedJSONList", "BufferedJSONAttrList"),
            ("JSONDict", "JSONAttrDict"), ("JSONList", "JSONAttrList"),
            ("JSONDict", "BufferedJSONDict"), ("JSONDict", "MemoryBufferedJSONDict"),
            ("BufferedJSONDict", "MemoryBufferedJSONDict"), ("BufferedJSONList", "MemoryBufferedJSONList")]


def _family_ok(obj, ci, where):
    dc, lc = ci.dict_cls, ci.list_cls
    stack = [(obj, ())]
    seen = set()
    while stack:
        node, path = stack.pop()
        if id(node) in seen:
            raise Mismatch("node_reachable_at_two_positions", where=where, path=list(path))
        seen.add(id(node))
        if type(node) not in (dc, lc):
            raise Mismatch("wrong_family", where=where, root=type(obj).__name__, path=list(path),
                           got=type(node).__name__)
        data = node._data
        for k, v in (data.items() if isinstance(data, dict) else enumerate(data)):
            if isinstance(v, SyncedCollection):
                stack.append((v, path + (k,)))


def run_sibling_case(case):
    """Two objects of different classes (same data type) bound to ONE file, each buffered in its own
    class's way; each must only ever contain nodes of its own family."""
    a_ci, b_ci = CLASSES[case["a"]], CLASSES[case["b"]]
    d = wm.case_dir()
    reset_class_state()
    try:
        res = new_resource(a_ci, d)
        doc = {"a": {"b": {"c": [1, {"d": 1}]}}, "l": [{"x": 1}]} if a_ci.kind == "dict" else [{"a": {"b": [1]}}, [{"x": 1}]]
        res.write(copy.deepcopy(doc))
        A, B = res.make(a_ci), res.make(b_ci)
        order = case["order"]
        ctxs = []
        if case["mode"] == "obj":
            for o in (A, B):
                if hasattr(o, "buffered"):
                    c = o.buffered
                    c.__enter__()
                    ctxs.append(c)
        elif case["mode"] == "cls":
            for ci_ in (a_ci, b_ci):
                if ci_.buffered:
                    c = ci_.cls.buffer_backend()
                    c.__enter__()
                    ctxs.append(c)
        objs = [(A, a_ci), (B, b_ci)]
        if order == "ba":
            objs.reverse()
        for rnd in range(2):
            for o, ci_ in objs:
                o()
                _family_ok(o, ci_, f"round {rnd} read")
            # two different buffers on one file = mixed buffering (unsupported): one writer only then
            w, wci = objs[rnd % 2] if case["mode"] == "none" else objs[0]
            if wci.kind == "dict":
                w["n%d" % rnd] = {"deep": [{"k": rnd}]}
            else:
                w.append({"deep": [{"k": rnd}]})
            for o, ci_ in objs:
                o()
                _family_ok(o, ci_, f"round {rnd} after write")
        from synced_collections.errors import BufferException
        for c in reversed(ctxs):
            try:
                c.__exit__(None, None, None)
            except BufferException:
                pass   # conflict between two different buffers on one file: outside the supported domain
        for o, ci_ in objs:
            o()
            _family_ok(o, ci_, "after exit")
    finally:
        reset_class_state()
        shutil.rmtree(d, ignore_errors=True)


def _fails_sibling(case):
    try:
        run_sibling_case(case)
    except Mismatch as mm:
        return mm.describe()
    return None


# ------------------------------------------------------------------ plumbing


def shards(tier):
    reps = 1 if tier == "quick" else 6
    s = [{"part": "a", "cls": c.name, "rep": r} for c in ALL for r in range(reps)]
    s += [{"part": "b", "cls": n, "rep": r} for n in ATTR_DICTS for r in range(2 * reps)]
    s += [{"part": "c", "cls": "JSONDict"}]
    return s


def run_shard(spec, seed, tier, active):
    wm.EXTRA_ENGINES["famworld"] = FamilyWorld
    acc = Acc()
    ci = CLASSES[spec["cls"]]
    if spec["part"] == "a":
        dom = gen.Dom(ci)
        n = 50 if tier == "quick" else 300

        def one(data):
            draw = data.draw
            init = draw(st.one_of(dom.doc(ci.kind), dom.doc(ci.kind), st.just(ABSENT)))
            w = wm.run_generated(ID, ci, [init], _gen_a(ci, dom), draw, 30, engine="famworld")
            depth = max((len(p) for p in container_paths(w.docs[0])), default=0)
            kinds = sorted({s["t"] if s["t"] != "op" else s["m"] for s in w.log})
            nt = depth >= 1
            acc.case([h64("a", ci.name, kinds, depth)] if nt else (),
                     {"part": "a", "class": ci.name, "steps": w.log[:12]} if nt else None,
                     {"part_a": 1, f"a.depth={min(depth, 4)}": 1})

        fail = hyp_search(one, n, seed)
        if fail is not None:
            acc.failures.append(wm.minimize_world(fail))
        return acc.result()

    if spec["part"] == "c":
        for (a, b) in SIBLINGS:
            for x, y in ((a, b), (b, a)):
                for mode in ("none", "obj", "cls"):
                    for order in ("ab", "ba"):
                        case = {"property": ID, "engine": "c18sib", "a": x, "b": y, "mode": mode, "order": order}
                        d = _fails_sibling(case)
                        acc.case([h64("c", x, y, mode, order)], case if len(acc.samples) < 2 else None, {"part_c": 1})
                        if d is not None and len(acc.failures) < 2:
                            acc.failures.append({"case": case, "desc": d})
        acc.extra["part_c_exhaustive"] = True
        return acc.result()

    n = 400 if tier == "quick" else 3000

    from ..runner import excl_of
    excl = excl_of(active)

    def one_b(data):
        case = _draw_attr_case(data.draw, ci.name)
        if excl:
            case["excl"] = excl
        try:
            run_attr_case(case)
        except Mismatch as mm:
            raise CaseFailure(case, mm.describe())
        sig = sorted({(key_class(ci.cls, s["k"]), s["op"], s["syn"], len(dec(s["path"]))) for s in case["steps"]})
        nt = any(x[0] != "free" or x[3] >= 1 for x in sig)
        acc.case([h64("b", ci.name, x) for x in sig if x[0] != "free" or x[3] >= 1],
                 case if nt else None, {"part_b": 1})

    fail = hyp_search(one_b, n, seed)
    if fail is not None:
        case, desc = minimize(fail.case, _fails_attr, key="steps", budget=80)
        acc.failures.append({"case": case, "desc": desc or fail.desc})
    return acc.result()


def replay(case):
    wm.EXTRA_ENGINES["famworld"] = FamilyWorld
    if case.get("engine") == "c18attr":
        return _fails_attr(case)
    if case.get("engine") == "c18sib":
        return _fails_sibling(case)
    return wm.replay_world(case)
