"""C19: how a value is classified never depends on what was processed before."""
import array
import collections
import decimal
import fractions
import itertools
import json
import os
import pickle
import shutil
import sys
import types
import warnings
from collections.abc import Mapping, Sequence

from hypothesis import strategies as st

from .. import env
from ..classes import (ABSENT, CLASSES, FakeRedis, HarnessError, JsonRes, RedisRes, ZarrRes,
                       reset_class_state)
from ..plain import h64
from ..runner import Acc, CaseFailure, hyp_search, minimize

import numpy as np
from synced_collections import validators as V
from synced_collections.backends import collection_json as cj
from synced_collections.data_types import synced_collection as sc_mod
from synced_collections.data_types import synced_dict as sd_mod
from synced_collections.data_types import synced_list as sl_mod


LATE_NUMPY_SCRIPT = r"""
import sys, json, os, tempfile
order = sys.argv[1]
if order == "numpy_first":
    import numpy as np
from synced_collections import validators as V
from synced_collections.backends.collection_json import JSONDict, JSONList, JSONAttrDict
d = tempfile.mkdtemp(dir=sys.argv[2])
if order == "library_first":
    # the library processes ordinary values before the application imports numpy
    V.json_format_validator({"a": [1, "x", None]})
    w = JSONDict(os.path.join(d, "warm.json")); w["k"] = [1, {"z": 2}]; w()
    wl = JSONList(os.path.join(d, "warml.json")); wl.append(1); wl()
    import numpy as np
out = {}
vals = {"int64": lambda: np.int64(3), "float32": lambda: np.float32(1.5), "bool_": lambda: np.bool_(True),
        "arr0d": lambda: np.array(7), "arr1d": lambda: np.array([1, 2, 3]), "arr2d": lambda: np.array([[1.5], [2.5]])}
def attempt(f):
    try:
        r = f()
        return ["ok", json.loads(json.dumps(r, default=repr))]
    except BaseException as e:
        return ["raise", type(e).__name__]
for name, mk in vals.items():
    out[name + ".validator"] = attempt(lambda: V.json_format_validator({"v": mk()}))
    for cls, kind in ((JSONDict, "d"), (JSONAttrDict, "d"), (JSONList, "l")):
        fn = os.path.join(d, f"{name}_{cls.__name__}.json")
        def store():
            o = cls(fn)
            if kind == "d":
                o["v"] = mk()
            else:
                o.append(mk())
            return [o(), json.load(open(fn))]
        out[name + "." + cls.__name__] = attempt(store)
    out[name + ".list_reset"] = attempt(lambda: (lambda o: (o.reset(mk()) if name.startswith("arr") and name != "arr0d" else o.append(mk()), o())[1])(JSONList(os.path.join(d, name + "_reset.json"))))
print(json.dumps(out, sort_keys=True))
"""


def run_late_numpy():
    """Two FRESH interpreters: numpy imported before the library is used vs the library used (on
    ordinary values) before the application imports numpy; numpy values must then be classified,
    converted and stored identically."""
    import subprocess
    import sys
    base = env.scratch("vfzn")
    outs = {}
    for order in ("numpy_first", "library_first"):
        p = subprocess.run([sys.executable, "-W", "ignore", "-c", LATE_NUMPY_SCRIPT, order, base],
                           stdout=subprocess.PIPE, stderr=subprocess.PIPE, text=True, timeout=300)
        if p.returncode != 0:
            from ..classes import HarnessError
            raise HarnessError("late-numpy child failed: " + p.stderr[-300:])
        outs[order] = json.loads(p.stdout.strip().splitlines()[-1])
    diff = {k: [outs["numpy_first"][k], outs["library_first"].get(k)] for k in outs["numpy_first"]
            if outs["numpy_first"][k] != outs["library_first"].get(k)}
    if diff:
        return {"what": "classification_depends_on_history", "history": "library used before `import numpy`",
                "differences": dict(list(diff.items())[:4]), "n_differences": len(diff)}, len(outs["numpy_first"])
    return None, len(outs["numpy_first"])


ID = "C19"
LEVEL = "exploration"
RULE = ("Fresh-process differential: a pool of ~70 value factories (built-ins; subclasses of "
        "list/dict/str/int/float/tuple, namedtuple; OrderedDict, defaultdict, MappingProxyType, "
        "UserDict/UserList/UserString, deque, range, bytes, bytearray, memoryview, array, set, "
        "frozenset, dict views, generator; user-defined Mapping, Sequence, both, neither-but-iterable; "
        "PAIRS of distinct classes with the same __name__/__qualname__ in different categories; values of "
        "SHORT-LIVED classes created on the fly (a new class per use, garbage-collected after the "
        "warm-up step: Mapping, Sequence, namedtuple, dict/str subclass, plain); NaN/inf floats alone "
        "and nested; a Mapping class with instances whose first classification raises; values nested "
        "hundreds of levels deep (operations on them may end in RecursionError); numpy "
        "0-d/1-d/2-d arrays of int/float/complex/bool/object/str, numpy scalars incl. longdouble, "
        "float64 (a float subclass); Decimal, Fraction, complex). A case = (warm-up: sequence of pool "
        "values, probe value). The probe runs every module-level type resolver, every validator, "
        "is_base_type/_from_base of dict and list classes and setitem/append/insert/update/reset/"
        "setdefault/constructor on fresh JSON, attr, Redis and Zarr collections plus a reload, and "
        "records a fingerprint (category / accept-or-exception class / stored plain form / node class "
        "names). Oracle: fingerprint after the warm-up (child forked from a pristine zygote, warm-up "
        "run through the same routine) == fingerprint in a pristine forked child. ALL ordered pairs "
        "(warm-up of length 1) are enumerated in both tiers ('exhaustive_pairs': true); longer "
        "warm-ups are Hypothesis-generated. Non-trivial = the warm-up contains a value of the probe's "
        "type, of a same-named type, or of a type sharing a non-object base with it; distinct by "
        "(probe, warm-up multiset).")
ASSUMPTIONS = [
    "all types exist before anything is processed (no ABC.register between warm-up and probe)",
    "fork() gives a pristine copy of process state: the zygote imports the library and numpy and "
    "processes nothing",
    "observes any process-wide memo, not only AbstractTypeResolver.type_map",
]


# ------------------------------------------------------------------ the pool


class L(list):
    pass


class D(dict):
    pass


class S(str):
    pass


class I(int):  # noqa: E742
    pass


class F(float):
    pass


class T(tuple):
    pass


NT = collections.namedtuple("NT", "a b")


class MyMap(Mapping):
    def __init__(self, d=None):
        self._d = d if d is not None else {"a": 1}

    def __getitem__(self, k):
        return self._d[k]

    def __iter__(self):
        return iter(self._d)

    def __len__(self):
        return len(self._d)


class MySeq(Sequence):
    def __init__(self, d=None):
        self._l = d if d is not None else [1, "x"]

    def __getitem__(self, i):
        return self._l[i]

    def __len__(self):
        return len(self._l)


class MapSeq(MyMap):
    """Matches several categories: a Mapping that is also registered as a Sequence."""

    def __getitem__(self, k):
        if isinstance(k, int):
            return list(self._d)[k]
        return self._d[k]


Sequence.register(MapSeq)


class Iter:
    def __iter__(self):
        return iter([1, 2])


class Plain:
    pass


TwinA = type("Twin", (dict,), {"__qualname__": "Twin", "__module__": "twin"})
TwinB = type("Twin", (list,), {"__qualname__": "Twin", "__module__": "twin"})
TwinC = type("Twin", (), {"__qualname__": "Twin", "__module__": "twin"})
TwinD = type("Twin", (str,), {"__qualname__": "Twin", "__module__": "twin"})
ListNamedDict = type("list", (dict,), {"__qualname__": "list"})
DictNamedList = type("dict", (list,), {"__qualname__": "dict"})
NdarrayNamed = type("ndarray", (list,), {"__qualname__": "ndarray", "__module__": "numpy"})

class Weird(MyMap):
    """A Mapping whose instances can make the very first classification blow up: reading the
    __class__ of a 'bad' instance (which isinstance() against an ABC does) raises."""

    def __init__(self, bad=False):
        super().__init__({"a": 1})
        object.__setattr__(self, "_bad", bad)

    @property
    def __class__(self):
        if object.__getattribute__(self, "_bad"):
            raise RuntimeError("refusing to be classified")
        return Weird


def _deep(n, bottom):
    v = bottom
    for _ in range(n):
        v = [v]
    return v


def _dyn(kind):
    """A value of a class created right now (and collectable right after): short-lived classes."""
    if kind == "map":
        return type("Rec", (MyMap,), {})({"a": 1, "b": 2})
    if kind == "seq":
        return type("Rec", (MySeq,), {})([1, 2])
    if kind == "nt":
        return collections.namedtuple("Rec", "a b")(1, 2)
    if kind == "dict":
        return type("Rec", (dict,), {})(a=1)
    if kind == "str":
        return type("Rec", (str,), {})("s")
    return type("Rec", (), {})()


class _DictOnly(sd_mod.SyncedDict):
    """A backend whose registry has a dict class only."""
    _backend = "vf.c19.dict_only"

    def __init__(self, data=None, parent=None, *a, **kw):
        self._store = {}
        super().__init__(data=data, parent=parent, *a, **kw)

    def _load_from_resource(self):
        return None

    def _save_to_resource(self):
        pass

    @property
    def _lock_id(self):
        return id(self)


POOL = [
    ("dict", lambda: {"a": 1, "b": [1]}), ("dict_empty", dict), ("dict_intkey", lambda: {1: 2}),
    ("list", lambda: [1, "a", None]), ("list_empty", list), ("tuple", lambda: (1, 2)),
    ("str", lambda: "abc"), ("str_empty", str), ("int", lambda: 7), ("float", lambda: 1.5),
    ("bool", lambda: True), ("none", lambda: None), ("bytes", lambda: b"ab"),
    ("bytearray", lambda: bytearray(b"ab")), ("set", lambda: {1, 2}), ("frozenset", lambda: frozenset([1])),
    ("complex", lambda: 1j), ("range", lambda: range(3)), ("memoryview", lambda: memoryview(b"ab")),
    ("dict_keys", lambda: {"a": 1}.keys()), ("dict_values", lambda: {"a": 1}.values()),
    ("dict_items", lambda: {"a": 1}.items()), ("generator", lambda: (i for i in range(2))),
    ("L", lambda: L([1, 2])), ("D", lambda: D(a=1)), ("S", lambda: S("s")), ("I", lambda: I(3)),
    ("F", lambda: F(2.5)), ("T", lambda: T((1, 2))), ("NT", lambda: NT(1, 2)),
    ("OrderedDict", lambda: collections.OrderedDict(a=1)),
    ("defaultdict", lambda: collections.defaultdict(list, a=[1])),
    ("mappingproxy", lambda: types.MappingProxyType({"a": 1})),
    ("UserDict", lambda: collections.UserDict(a=1)), ("UserList", lambda: collections.UserList([1, 2])),
    ("UserString", lambda: collections.UserString("us")), ("deque", lambda: collections.deque([1, 2])),
    ("array", lambda: array.array("i", [1, 2])), ("Decimal", lambda: decimal.Decimal("1.5")),
    ("Fraction", lambda: fractions.Fraction(1, 2)),
    ("MyMap", MyMap), ("MySeq", MySeq), ("MapSeq", MapSeq), ("Iter", Iter), ("Plain", Plain),
    ("TwinA_dict", lambda: TwinA(a=1)), ("TwinB_list", lambda: TwinB([1])), ("TwinC_obj", TwinC),
    ("TwinD_str", lambda: TwinD("t")), ("list_named_dict", lambda: ListNamedDict(a=1)),
    ("dict_named_list", lambda: DictNamedList([1])), ("ndarray_named_list", lambda: NdarrayNamed([1])),
    ("np0d_int", lambda: np.array(3)), ("np0d_float", lambda: np.array(1.5)),
    ("np0d_complex", lambda: np.array(1j)), ("np0d_bool", lambda: np.array(True)),
    ("np1d_int", lambda: np.array([1, 2])), ("np1d_float", lambda: np.array([1.5])),
    ("np1d_complex", lambda: np.array([1j])), ("np1d_bool", lambda: np.array([True])),
    ("np1d_empty", lambda: np.array([])), ("np1d_object", lambda: np.array([{"a": 1}, None], dtype=object)),
    ("np2d_int", lambda: np.array([[1, 2], [3, 4]])), ("np1d_str", lambda: np.array(["a", "b"])),
    ("np_int64", lambda: np.int64(3)), ("np_int8", lambda: np.int8(3)), ("np_float64", lambda: np.float64(1.5)),
    ("np_float32", lambda: np.float32(1.5)), ("np_longdouble", lambda: np.longdouble(1.5)),
    ("np_complex128", lambda: np.complex128(1j)), ("np_bool", lambda: np.bool_(True)),
    ("np_str", lambda: np.str_("s")),
    ("float_nan", lambda: float("nan")), ("float_inf", lambda: float("inf")), ("float_ninf", lambda: float("-inf")),
    ("list_with_nan", lambda: [0.25, float("nan")]), ("dict_with_inf", lambda: {"a": float("inf")}),
    ("weird_ok", lambda: Weird(False)), ("weird_bad", lambda: Weird(True)),
    ("deep_ordereddict", lambda: _deep(400, collections.OrderedDict(a=1))),
    ("deep_userlist", lambda: _deep(700, collections.UserList([1]))),
    ("dyn_map", lambda: _dyn("map")), ("dyn_seq", lambda: _dyn("seq")), ("dyn_namedtuple", lambda: _dyn("nt")),
    ("dyn_dict", lambda: _dyn("dict")), ("dyn_str", lambda: _dyn("str")), ("dyn_plain", lambda: _dyn("plain")),
    ("nested_list_with_np", lambda: [np.array([1, 2]), {"a": np.int64(1)}]),
    ("nested_dict_with_L", lambda: {"k": L([D(a=MySeq())])}),
    # several hundred DISTINCT new types in one value (bounded memo tables must not forget what they
    # cannot rebuild)
    # equal to (and hashing like) a valid tuple, but with members that are not JSON
    ("tuple_decimal_eq", lambda: (decimal.Decimal(1), 2)), ("tuple_fraction_eq", lambda: (fractions.Fraction(1), 2)),
    ("tuple_complex_eq", lambda: (1 + 0j, 2)), ("tuple_int_pair", lambda: (1, 2)),
    ("burst_list_types", lambda: [type("B%d" % i, (list,), {})([i]) for i in range(160)]),
    ("burst_scalar_types", lambda: {"k%d" % i: type("N%d" % i, (int,), {})(i) for i in range(160)}),
]
NAMES = [n for n, _ in POOL]
N = len(POOL)
# used as warm-up only: an instance that sabotages its own classification has no specified outcome
NO_PROBE = {"weird_bad", "burst_list_types", "burst_scalar_types"}   # used as warm-up only
BURST_PROBES_QUICK = {"none", "list", "dict", "tuple", "str", "int", "float", "bool", "bytes", "set", "L", "D",
                      "dict_intkey", "list_with_nan", "nested_list_with_np", "tuple_decimal_eq", "dyn_seq"}

RESOLVERS = [
    ("sc", sc_mod._sc_resolver), ("collection", sc_mod._collection_resolver),
    ("mapping", sd_mod._mapping_resolver), ("sequence", sl_mod._sequence_resolver),
    ("no_dot", V._no_dot_in_key_type_resolver), ("json_format", V._json_format_validator_type_resolver),
    ("json_attr", cj._json_attr_dict_validator_type_resolver),
]
VALIDATORS = [("require_string_key", V.require_string_key), ("json_format_validator", V.json_format_validator),
              ("no_dot_in_key", V.no_dot_in_key), ("json_attr_dict_validator", cj.json_attr_dict_validator)]

_dir = [None]


def _outcome(fn):
    try:
        r = fn()
        return ("ok", r)
    except RecursionError:
        return ("raise", "RecursionError")
    except Exception as e:  # noqa: BLE001
        return ("raise", type(e).__name__)


import re as _re
_ADDR = _re.compile(r"0x[0-9a-fA-F]+")


def _srepr(x, n=120):
    try:
        return _ADDR.sub("0x", repr(x))[:n]
    except Exception as e:  # noqa: BLE001
        return f"<repr failed: {type(e).__name__}>"


def _shape(x):
    """Picklable description of a result: plain form + class names of synced nodes."""
    from synced_collections import SyncedCollection
    if isinstance(x, SyncedCollection):
        d = x._data
        if isinstance(d, dict):
            return (type(x).__name__, tuple((repr(k), _shape(v)) for k, v in d.items()))
        return (type(x).__name__, tuple(_shape(v) for v in d))
    return (type(x).__name__, _srepr(x, 80))


def _read(path):
    try:
        with open(path, "rb") as f:
            return f.read().decode("utf-8", "replace")
    except FileNotFoundError:
        return None


def probe(idx):
    """Feed POOL[idx] through resolvers, validators and collections; return the fingerprint."""
    make = POOL[idx][1]
    fp = []
    for name, r in RESOLVERS:
        o = _outcome(lambda: r.get_type(make()))
        fp.append((name, o[0], _srepr(o[1])))
    for name, f in VALIDATORS:
        o = _outcome(lambda: f(make()))
        fp.append((name, o[0], o[1] if o[0] == "raise" else None))
    for cname in ("JSONDict", "JSONList", "JSONAttrDict", "RedisList", "ZarrDict"):
        cls = CLASSES[cname].cls
        o = _outcome(lambda: cls.is_base_type(make()))
        fp.append(("is_base_type." + cname, o[0], _srepr(o[1])))
    for cname in ("JSONDict", "JSONAttrList"):
        cls = CLASSES[cname].cls
        o = _outcome(lambda: cls._from_base(make()))
        fp.append(("_from_base." + cname, (o[0], _shape(o[1]) if o[0] == "ok" else o[1])))
    d = _dir[0]
    n = [0]

    def coll(cname):
        ci = CLASSES[cname]
        n[0] += 1
        if ci.backend == "json":
            res = JsonRes(os.path.join(d, f"p{os.getpid()}_{n[0]}.json"))
            res.remove()
        elif ci.backend == "redis":
            res = RedisRes()
        else:
            res = ZarrRes()
        return res, res.make(ci)

    def run(cname, label, fn):
        res, obj = coll(cname)
        o = _outcome(lambda: fn(obj))
        stored = res.raw()
        if isinstance(stored, bytes):
            stored = stored.decode("utf-8", "replace")
        fp.append((f"{cname}.{label}", o[0] if o[0] == "ok" else o, _shape(obj), stored))
        if o[0] == "ok":
            # reload through a fresh object (merging / conversion of the stored form)
            o2 = _outcome(lambda: res.make(CLASSES[cname])())
            fp.append((f"{cname}.{label}.reload", (o2[0], _srepr(o2[1]))))

    for cname in ("JSONDict", "JSONAttrDict", "BufferedJSONDict", "RedisDict", "ZarrDict"):
        run(cname, "setitem", lambda o: o.__setitem__("k", make()))
        run(cname, "update", lambda o: o.update({"k": make()}))
        run(cname, "setdefault", lambda o: o.setdefault("k", make()))
        run(cname, "reset_value", lambda o: o.reset({"k": [make()]}))
        run(cname, "reset_whole", lambda o: o.reset(make()))
    for cname in ("JSONList", "JSONAttrList", "MemoryBufferedJSONList", "RedisList", "ZarrList"):
        run(cname, "append", lambda o: o.append(make()))
        run(cname, "insert", lambda o: o.insert(0, make()))
        run(cname, "extend", lambda o: o.extend([make()]))
        run(cname, "iadd", lambda o: o.__iadd__([make()]))
        run(cname, "reset_whole", lambda o: o.reset(make()))
        run(cname, "setitem_after_append", lambda o: (o.append(0), o.__setitem__(0, make())))
    # constructor
    for cname in ("JSONDict", "JSONList"):
        ci = CLASSES[cname]
        res = JsonRes(os.path.join(d, f"c{os.getpid()}.json"))
        o = _outcome(lambda: res.make(ci, data=make()))
        fp.append((f"{cname}.ctor", (o[0], _shape(o[1]) if o[0] == "ok" else o[1])))
    # LAST: the value also goes through a user-defined backend that only has a dict class (nested
    # lists legitimately stay plain there). Being last, it is history for the NEXT value only.
    o = _outcome(lambda: _DictOnly._from_base({"k": make(), "l": [make()]}))
    fp.append(("dict_only_backend._from_base", (o[0], _shape(o[1]) if o[0] == "ok" else o[1])))
    return fp


def _child(work, wfd):
    """Run in a forked child: execute work(), send pickled result, exit without cleanup."""
    try:
        warnings.simplefilter("ignore")
        res = ("ok", work())
    except BaseException as e:  # noqa: BLE001
        import traceback
        res = ("err", f"{type(e).__name__}: {e}\n{traceback.format_exc()[-800:]}")
    try:
        data = pickle.dumps(res)
    except Exception as e:  # noqa: BLE001
        data = pickle.dumps(("err", f"unpicklable fingerprint: {e}"))
    with os.fdopen(wfd, "wb") as f:
        f.write(data)
    os._exit(0)


def forked(work):
    r, w = os.pipe()
    pid = os.fork()
    if pid == 0:
        os.close(r)
        _child(work, w)
    os.close(w)
    with os.fdopen(r, "rb") as f:
        data = f.read()
    os.waitpid(pid, 0)
    if not data:
        raise HarnessError("forked probe died without result")
    tag, val = pickle.loads(data)
    if tag == "err":
        raise HarnessError("probe failed in child: " + val)
    return val


_fresh_cache = {}


def fresh_fp(idx):
    if idx not in _fresh_cache:
        _fresh_cache[idx] = forked(lambda: probe(idx))
    return _fresh_cache[idx]


def warmed_fp(warm, idx):
    def work():
        import gc
        for w in warm:
            probe(w)
            gc.collect()   # short-lived classes of the warm-up die here
        return probe(idx)
    return forked(work)


def diff(a, b):
    out = []
    for x, y in zip(a, b):
        if x != y:
            out.append({"probe": x[0], "fresh": repr(x[1:])[:200], "warmed": repr(y[1:])[:200]})
    return out


def run_case(case):
    warm = [NAMES.index(n) for n in case["warm"]]
    idx = NAMES.index(case["probe"])
    a = fresh_fp(idx)
    b = warmed_fp(warm, idx)
    if a != b:
        return {"what": "classification_depends_on_history", "probe_value": case["probe"],
                "warm": case["warm"], "differences": diff(a, b)[:6]}
    return None


def _types():
    out = []
    for n, f in POOL:
        try:
            t = type(f())
        except Exception:  # noqa: BLE001
            t = object
        out.append(t)
    return out


def _related(ta, tb):
    if ta is tb or ta.__name__ == tb.__name__:
        return True
    ba = {c for c in ta.__mro__ if c is not object}
    bb = {c for c in tb.__mro__ if c is not object}
    return bool(ba & bb)


def shards(tier):
    k = 16
    s = [{"mode": "pairs", "part": i, "of": k} for i in range(k)]
    reps = 16 if tier == "quick" else 48
    s += [{"mode": "random", "rep": r} for r in range(reps)]
    s += [{"mode": "late_numpy"}]
    return s


def run_shard(spec, seed, tier, active):
    warnings.simplefilter("ignore")
    _dir[0] = env.scratch("vfz")
    reset_class_state()
    acc = Acc()
    T = _types()

    def record(case):
        pi = NAMES.index(case["probe"])
        nt = any(_related(T[NAMES.index(w)], T[pi]) for w in case["warm"])
        acc.case([h64(case["probe"], sorted(case["warm"]))] if nt else (), case if nt else None,
                 {"warmup_len=" + str(min(len(case["warm"]), 6)): 1})

    if spec["mode"] == "late_numpy":
        d, nprobes = run_late_numpy()
        case = {"property": ID, "engine": "late_numpy"}
        for i in range(nprobes):
            acc.case([h64("late_numpy", i)], case if i == 0 else None, {"late_numpy_probes": 1})
        if d is not None:
            acc.failures.append({"case": case, "desc": d})
        return acc.result()
    if spec["mode"] == "pairs":
        pairs = [(a, b) for a in range(N) for b in range(N)]
        for j, (a, b) in enumerate(pairs):
            if j % spec["of"] != spec["part"]:
                continue
            if NAMES[b] in NO_PROBE:
                continue
            if tier == "quick" and NAMES[a].startswith("burst_") and NAMES[b] not in BURST_PROBES_QUICK:
                continue    # (the bursts are expensive warm-ups: all probes only in the thorough tier)
            case = {"property": ID, "engine": "zygote", "warm": [NAMES[a]], "probe": NAMES[b]}
            d = run_case(case)
            record(case)
            if d is not None and len(acc.failures) < 3:
                acc.failures.append({"case": case, "desc": d})
        acc.extra["exhaustive_pairs"] = True
        acc.extra["pool_size"] = N
        return acc.result()

    n = 60 if tier == "quick" else 400

    def one(data):
        draw = data.draw
        pi = draw(st.integers(0, N - 1).filter(lambda i: NAMES[i] not in NO_PROBE))
        rel = [i for i in range(N) if _related(T[i], T[pi])]
        warm = draw(st.lists(st.one_of(st.sampled_from(rel), st.integers(0, N - 1)), min_size=2, max_size=8))
        case = {"property": ID, "engine": "zygote", "warm": [NAMES[i] for i in warm], "probe": NAMES[pi]}
        d = run_case(case)
        if d is not None:
            raise CaseFailure(case, d)
        record(case)

    fail = hyp_search(one, n, seed)
    if fail is not None:
        case, desc = minimize(fail.case, run_case, key="warm", budget=40)
        acc.failures.append({"case": case, "desc": desc or fail.desc})
    return acc.result()


def replay(case):
    warnings.simplefilter("ignore")
    if case.get("engine") == "late_numpy":
        return run_late_numpy()[0]
    if _dir[0] is None:
        _dir[0] = env.scratch("vfz")
    return run_case(case)
