"""Shard runner, Hypothesis driver, minimiser, evidence writer, known-findings plumbing."""
import concurrent.futures as cf
import glob
import hashlib
import json
import multiprocessing as mp
import os
import sys
import time
import traceback
from collections import Counter

from . import env
from .classes import HarnessError


class CaseFailure(Exception):
    """A generated case violated the property. ``case`` is the JSON-able replay."""

    def __init__(self, case, desc):
        super().__init__(desc.get("what", "violation"))
        self.case = case
        self.desc = desc


class Acc:
    """Per-shard accumulator."""

    def __init__(self, max_samples=4):
        self.evaluations = 0
        self.nt = set()
        self.samples = []
        self.max_samples = max_samples
        self.counters = Counter()
        self.failures = []
        self.excluded = 0
        self.known_hits = Counter()
        self.extra = {}

    def case(self, nt_hashes=(), sample=None, counters=None):
        self.evaluations += 1
        if nt_hashes:
            self.nt.update(nt_hashes)
            if sample is not None and len(self.samples) < self.max_samples:
                self.samples.append(sample)
        if counters:
            self.counters.update(counters)

    def result(self):
        return {
            "evaluations": self.evaluations,
            "nt": list(self.nt),
            "samples": self.samples,
            "counters": {str(k): v for k, v in self.counters.items()},
            "failures": self.failures,
            "excluded": self.excluded,
            "known_hits": dict(self.known_hits),
            "extra": self.extra,
        }


def hyp_search(case_fn, max_examples, seed, stateful_steps=None):
    """Run ``case_fn(data)`` on generated inputs; return the first CaseFailure or None.

    Generation only (no Hypothesis shrink phase): failures are minimised by
    ``minimize`` on the concrete step list, which is bounded and deterministic.
    """
    import hypothesis
    from hypothesis import HealthCheck, Phase, given, settings
    from hypothesis import strategies as st

    found = []

    @hypothesis.seed(seed)
    @settings(
        max_examples=max_examples,
        database=None,
        deadline=None,
        derandomize=False,
        report_multiple_bugs=False,
        phases=[Phase.generate],
        suppress_health_check=list(HealthCheck),
        print_blob=False,
    )
    @given(st.data())
    def test(data):
        try:
            case_fn(data)
        except CaseFailure as f:
            found.append(f)
            raise

    try:
        test()
    except CaseFailure:
        pass
    except BaseException as e:  # noqa: BLE001
        if found:
            return found[0]
        if type(e).__name__ in ("Flaky", "FlakyFailure", "FlakyStrategyDefinition"):
            raise HarnessError("hypothesis reported flakiness: " + str(e)[:300])
        raise
    return found[0] if found else None


def minimize(case, fails, key="steps", budget=300):
    """Greedy deletion of steps while ``fails(case)`` keeps reporting the same ``what``."""
    _f = fails

    def fails(c):  # noqa: F811 - a candidate that breaks the harness is simply not a reproduction
        try:
            return _f(c)
        except Exception:  # noqa: BLE001
            return None

    first = fails(case)
    if first is None:
        return case, None  # not reproducible outside hypothesis: keep as is
    what = first.get("what")
    best, best_desc = case, first
    n = 0
    changed = True
    while changed and n < budget:
        changed = False
        i = len(best[key]) - 1
        while i >= 0 and n < budget:
            cand = dict(best)
            cand[key] = best[key][:i] + best[key][i + 1:]
            n += 1
            d = fails(cand)
            if d is not None and d.get("what") == what:
                best, best_desc = cand, d
                changed = True
            i -= 1
    return best, best_desc


def _cands(x):
    """Simpler replacements of an encoded JSON value (for value minimisation)."""
    out = []
    if isinstance(x, list):
        if x:
            out.append([])
            for i in range(len(x)):
                out.append(x[:i] + x[i + 1:])
    elif isinstance(x, dict):
        if len(x) == 1 and next(iter(x)) in _OPAQUE:
            pass
        elif len(x) == 1 and next(iter(x)) in ("$t",):
            out.append(x["$t"])
        elif not any(k.startswith("$") for k in x):
            if x:
                out.append({})
                for k in x:
                    out.append({a: b for a, b in x.items() if a != k})
    elif isinstance(x, str):
        if x not in ("", "a"):
            out += ["", "a"]
    elif isinstance(x, bool) or x is None:
        pass
    elif isinstance(x, int):
        if x not in (0, 1):
            out += [0, 1]
    elif isinstance(x, float):
        if x not in (0.0, 1.5):
            out += [0.0, 1.5]
    return out


_OPAQUE = ("$s", "$h", "$inv", "$b", "$f", "$repr")


def _subpaths(x, pre=()):
    yield pre
    if isinstance(x, dict) and len(x) == 1 and next(iter(x)) in _OPAQUE:
        return
    if isinstance(x, list):
        for i, v in enumerate(x):
            yield from _subpaths(v, pre + (i,))
    elif isinstance(x, dict):
        for k, v in x.items():
            yield from _subpaths(v, pre + (k,))


def _get(x, path):
    for k in path:
        x = x[k]
    return x


def _set(x, path, v):
    import copy
    if not path:
        return v
    x = copy.deepcopy(x)
    cur = x
    for k in path[:-1]:
        cur = cur[k]
    cur[path[-1]] = v
    return x


def shrink_values(case, fails, what, slots, budget=200):
    """Greedy simplification of argument / document values at ``slots`` (paths into the case)."""
    n = 0
    progress = True
    _f = fails

    def fails(c):  # noqa: F811
        try:
            return _f(c)
        except Exception:  # noqa: BLE001
            return None

    while progress and n < budget:
        progress = False
        for slot in slots(case):
            try:
                root = _get(case, slot)
            except (KeyError, IndexError, TypeError):
                continue
            for sp in list(_subpaths(root)):
                try:
                    cur = _get(root, sp)
                except (KeyError, IndexError, TypeError):
                    continue
                for c in _cands(cur):
                    if n >= budget:
                        return case
                    n += 1
                    cand = _set(case, tuple(slot) + tuple(sp), c)
                    d = fails(cand)
                    if d is not None and d.get("what") == what:
                        case = cand
                        root = _get(case, slot)
                        progress = True
                        break
    return case


def world_slots(case):
    out = []
    for i, s in enumerate(case.get("steps", [])):
        for k in ("a", "kw", "doc"):
            if k in s:
                out.append(("steps", i, k))
    for j in range(len(case.get("cfg", {}).get("docs", []))):
        if case["cfg"]["docs"][j] != "$ABSENT":
            out.append(("cfg", "docs", j))
    return out


def save_replay(prop, case, desc):
    d = os.path.join(env.OUT, "replays", prop)
    os.makedirs(d, exist_ok=True)
    body = dict(case)
    body["property"] = prop
    body["observed"] = desc
    blob = json.dumps(body, indent=1, sort_keys=True, default=repr)
    name = hashlib.sha1(blob.encode()).hexdigest()[:12] + ".json"
    p = os.path.join(d, name)
    with open(p, "w") as f:
        f.write(blob)
    return p


# --------------------------------------------------------------------------- known findings


def load_findings(prop=None):
    p = os.path.join(env.VERIF, "known_findings.json")
    if not os.path.exists(p):
        return []
    with open(p) as f:
        items = json.load(f).get("findings", [])
    if prop:
        items = [e for e in items if prop in e.get("properties", [e.get("property")])]
    return items


def excl_of(active):
    out = []
    for e in active or ():
        x = e.get("exclusion")
        if x:
            out += x if isinstance(x, list) else [x]
    return sorted(set(out))


def sig_matches(sig, desc):
    """Every key of the signature must match the failure's structured description."""
    for k, v in sig.items():
        got = desc.get(k)
        if isinstance(v, list):
            if got not in v:
                return False
        elif got != v:
            return False
    return True


# --------------------------------------------------------------------------- orchestration


class ShardTimeout(BaseException):
    pass


# A shard that runs this long is stuck (a whole quick check takes minutes): the run is reported as
# inconclusive (harness error, exit 2) - never as a violation, and never left hanging.
SHARD_LIMIT_S = {"quick": 3600, "thorough": 6 * 3600}


def _run_shard(args):
    modname, spec, seed, tier, active = args
    import signal

    def on_alarm(signum, frame):
        raise ShardTimeout()

    old = None
    try:
        try:
            old = signal.signal(signal.SIGALRM, on_alarm)
            signal.alarm(SHARD_LIMIT_S.get(tier, 3600))
        except (ValueError, AttributeError):
            old = None      # not in the main thread / no SIGALRM: run without the watchdog
        try:
            return _run_shard_inner(modname, spec, seed, tier, active)
        except ShardTimeout:
            return {"harness_error": f"{spec}: shard exceeded {SHARD_LIMIT_S.get(tier, 3600)} s (inconclusive)"}
    finally:
        try:
            signal.alarm(0)
            if old is not None:
                signal.signal(signal.SIGALRM, old)
        except (ValueError, AttributeError):
            pass
        env.cleanup_now()


def _run_shard_inner(modname, spec, seed, tier, active):
    try:
        import importlib
        mod = importlib.import_module(modname)
        t0 = time.time()
        res = mod.run_shard(spec, seed, tier, active)
        res["wall"] = time.time() - t0
        res["spec"] = spec
        return res
    except HarnessError as e:
        return {"harness_error": f"{spec}: {e}\n{traceback.format_exc()}"}
    except ShardTimeout:
        raise
    except BaseException as e:  # noqa: BLE001
        tb = traceback.extract_tb(e.__traceback__)
        frames = [f for f in tb if f.filename.startswith(env.LIB + os.sep)]
        if frames and not isinstance(e, (KeyboardInterrupt, SystemExit, MemoryError)):
            # the library itself raised during an operation every check generates only validly:
            # that is the library's failure, not the harness's
            last = frames[-1]
            return {"lib_exception": {
                "what": "library_raised_unexpectedly",
                "error": f"{type(e).__name__}: {str(e)[:300]}",
                "where": f"{os.path.relpath(last.filename, env.REPO)}:{last.lineno} in {last.name}",
                "traceback_tail": traceback.format_exc()[-1500:],
            }, "spec": spec, "seed": seed, "tier": tier, "module": modname}
        return {"harness_error": f"{spec}: {type(e).__name__}: {e}\n{traceback.format_exc()}"}


def replay_shard(case):
    """Replay of a 'library raised unexpectedly' finding: re-run the deterministic shard."""
    r = _run_shard((case["module"], case["spec"], case["seed"], case["tier"], []))
    if "lib_exception" in r:
        return r["lib_exception"]
    if "harness_error" in r:
        raise HarnessError(r["harness_error"])
    if r.get("failures"):
        return r["failures"][0]["desc"]
    return None


def run_property(mod, tier, seed, nproc=None, only_shards=None):
    prop = mod.ID
    t0 = time.time()
    env.sweep_stale()
    out_lines = []
    violations = []

    def replay_file(path):
        with open(path) as f:
            case = json.load(f)
        return mod.replay(case)

    # 1. regression tier: replay files of fixed defects must pass
    regress = sorted(glob.glob(os.path.join(env.VERIF, "replays", prop, "regress", "*.json")))
    if os.environ.get("VF_NO_REGRESS"):
        regress = []   # sensitivity experiments only: judge the generated search alone
    n_regress = 0
    for p in regress:
        n_regress += 1
        d = replay_file(p)
        if d is not None:
            violations.append((p, d))
    # 2. known findings: replay; the ones that still reproduce are announced and excluded
    active = []
    for e in load_findings(prop):
        if e.get("status") != "known":
            continue
        rp = os.path.join(env.VERIF, e["replay"])
        with open(rp) as f:
            fcase = json.load(f)
        rmod = mod
        if fcase.get("property") != prop:
            import importlib
            rmod = importlib.import_module("vf.props." + fcase["property"].lower())
        d = rmod.replay(fcase)
        if d is not None:
            out_lines.append(f"KNOWN-FINDING: property={prop} {e['id']} {e['title']}")
            active.append(e)
    # 3. generated search
    specs = mod.shards(tier)
    if only_shards:
        specs = specs[:only_shards]
    nproc = nproc or min(16, len(specs)) or 1
    jobs = [(mod.__name__, s, seed * 1000 + i, tier, active) for i, s in enumerate(specs)]
    results = []
    if violations:
        results = []
    elif nproc == 1:
        results = [_run_shard(j) for j in jobs]
    else:
        ctx = mp.get_context("fork")
        with cf.ProcessPoolExecutor(max_workers=nproc, mp_context=ctx) as ex:
            results = list(ex.map(_run_shard, jobs))
    for r in [r for r in results if "lib_exception" in r]:
        c = {"property": prop, "engine": "shard", "module": r["module"], "spec": r["spec"],
             "seed": r["seed"], "tier": r["tier"]}
        violations.append((save_replay(prop, c, r["lib_exception"]), r["lib_exception"]))
    results = [r for r in results if "lib_exception" not in r]
    herr = [r["harness_error"] for r in results if "harness_error" in r]
    if herr:
        for h in herr:
            print("HARNESS-ERROR:", h, file=sys.stderr)
        return 2
    ev = 0
    nt = set()
    samples = []
    counters = Counter()
    excluded = 0
    known_hits = Counter()
    extra = {}
    for r in results:
        ev += r["evaluations"]
        nt.update(r["nt"])
        for s in r["samples"]:
            if len(samples) < 8:
                samples.append(s)
        counters.update(r["counters"])
        excluded += r["excluded"]
        known_hits.update(r["known_hits"])
        for k, v in r["extra"].items():
            if isinstance(v, (int, float)) and not isinstance(v, bool):
                extra[k] = extra.get(k, 0) + v
            elif isinstance(v, bool):
                extra[k] = extra.get(k, True) and v
            else:
                extra.setdefault(k, v)
        for f in r["failures"]:
            p = save_replay(prop, f["case"], f["desc"])
            violations.append((p, f["desc"]))
    wall = time.time() - t0
    coverage = {
        "evaluations": ev + n_regress,
        "distinct_nontrivial": len(nt),
        "rule": mod.RULE,
        "samples": samples,
        "counters": dict(sorted(counters.items(), key=lambda kv: -kv[1])[:120]),
        "shards": len(specs),
        "regression_replays": n_regress,
        "excluded_by_known_findings": excluded,
        "known_findings_reproduced": [e["id"] for e in active],
        "known_finding_hits": dict(known_hits),
    }
    coverage.update(extra)
    if hasattr(mod, "coverage_extra"):
        coverage.update(mod.coverage_extra(tier, results))
    evidence = {
        "property_id": prop,
        "tier": tier,
        "seed": seed,
        "level": mod.LEVEL,
        "coverage": coverage,
        "assumptions": list(mod.ASSUMPTIONS),
        "wall_s": round(wall, 2),
        "violations": len(violations),
    }
    os.makedirs(os.path.join(env.OUT, "evidence"), exist_ok=True)
    ep = os.path.join(env.OUT, "evidence", f"{prop}.json")
    tmp = ep + ".tmp"
    with open(tmp, "w") as f:
        json.dump(evidence, f, indent=1, default=repr)
    os.replace(tmp, ep)
    for line in out_lines:
        print(line)
    for p, d in violations:
        rel = os.path.relpath(p, env.OUT)
        print(f"VIOLATION property={prop} replay={rel}")
        print("  " + json.dumps(d, default=repr)[:600])
    print(f"{prop} tier={tier} seed={seed} evaluations={coverage['evaluations']} "
          f"distinct_nontrivial={len(nt)} violations={len(violations)} wall={wall:.1f}s")
    return 1 if violations else 0
