"""Deterministic thread scheduler owned by the harness (C09, C10, C13, C14).

Only the thread holding the baton runs.  Yield points: every 'line' event in a
frame whose file is under /repo/synced_collections, every cooperative-lock
acquire / blocked retry.  A schedule = (start thread, {global step -> thread}).
With no preemption left the current thread keeps running; when it blocks or
finishes the lowest-numbered runnable thread continues.  Deadlock = some thread
unfinished and none runnable (exact, no timeouts).
"""
import _thread
import builtins
import copy
import errno as _errno
import io
import os
import pickle
import select
import shutil
import struct
import sys
import threading
import types

from . import env, ops
from .classes import ABSENT, CLASSES, HarnessError, JsonRes, reset_class_state
from .plain import dec, enc, plain

REAL_LOCK = _thread.allocate_lock
LIB = env.LIB + os.sep
_tls = threading.local()


_QUIET_FILES = ("validators.py", "numpy_utils.py", "errors.py")
_QUIET_FUNCS = {"get_type", "default", "json_attr_dict_validator", "<lambda>", "is_base_type"}


class Deadlock(Exception):
    pass


class StepLimit(Exception):
    pass


# --------------------------------------------------------------------------- cooperative locks

ALL_LOCKS = []


class CoopRLock:
    """Drop-in for threading.RLock/Lock whose blocking is a scheduling decision."""

    sched = None
    reentrant = True

    def __init__(self, *a, **kw):
        self.owner = None
        self.count = 0
        self.name = f"L{len(ALL_LOCKS)}"
        self.label = None
        ALL_LOCKS.append(self)

    def acquire(self, blocking=True, timeout=-1):
        s = CoopRLock.sched
        w = getattr(_tls, "worker", None)
        if s is None or w is None:
            me = "main"
            if self.owner is None or (self.owner == me and self.reentrant):
                self.owner = me
                self.count += 1
                return True
            raise HarnessError(f"lock {self.name} owned by {self.owner!r} while the main thread acquires it")
        s.yield_point(w, "acquire:" + self.name)
        while self.owner is not None and not (self.owner is w and self.reentrant):
            if self.owner is w:
                # non-reentrant self-acquire: a certain deadlock
                w.blocked_on = self
                s.yield_point(w, "selfblock:" + self.name, forced=True)
                continue
            if not blocking:
                return False
            w.blocked_on = self
            s.yield_point(w, "blocked:" + self.name, forced=True)
        w.blocked_on = None
        self.owner = w
        self.count += 1
        return True

    def release(self):
        w = getattr(_tls, "worker", None) or "main"
        if not (self.owner is w or (self.owner == "main" and w == "main")):
            raise RuntimeError("cannot release un-acquired lock")
        self.count -= 1
        if self.count == 0:
            self.owner = None

    def locked(self):
        return self.owner is not None

    __enter__ = acquire

    def __exit__(self, *a):
        self.release()

    def _is_owned(self):
        return self.owner is (getattr(_tls, "worker", None) or "main")


class CoopLock(CoopRLock):
    reentrant = False


class _ThreadingProxy(types.ModuleType):
    def __init__(self):
        super().__init__("threading")

    def __getattr__(self, name):
        if name == "RLock":
            return CoopRLock
        if name == "Lock":
            return CoopLock
        return getattr(threading, name)


_installed = [False]


def install():
    """Route every lock the library creates through CoopRLock; re-create existing class locks."""
    import synced_collections  # noqa: F401
    reals = {threading.RLock: CoopRLock, threading.Lock: CoopLock, _thread.allocate_lock: CoopLock}
    if hasattr(_thread, "RLock"):
        reals[_thread.RLock] = CoopRLock
    proxy = _ThreadingProxy()
    for name, mod in list(sys.modules.items()):
        if not name.startswith("synced_collections") or mod is None:
            continue
        for k, v in list(vars(mod).items()):
            try:
                if v in reals:
                    setattr(mod, k, reals[v])
                elif v is threading:
                    setattr(mod, k, proxy)
                elif v is _thread:
                    raise HarnessError("library uses _thread directly: cannot schedule it")
            except TypeError:
                pass
    _installed[0] = True
    fresh_locks()


def fresh_locks():
    """New cooperative class-level locks (called before every execution)."""
    from .classes import ALL
    del ALL_LOCKS[:]
    seen = set()
    for ci in ALL:
        for c in ci.cls.__mro__:
            if c in seen or not isinstance(c, type):
                continue
            seen.add(c)
            d = c.__dict__
            if "_cls_lock" in d:
                c._cls_lock = CoopRLock()
                c._cls_lock.label = f"{c.__name__}._cls_lock"
            if "_locks" in d:
                c._locks = {}
            if "_BUFFER_LOCK" in d and type(d["_BUFFER_LOCK"]).__name__ != "_NullContext":
                c._BUFFER_LOCK = CoopRLock()
                c._BUFFER_LOCK.label = f"{c.__name__}._BUFFER_LOCK"


# --------------------------------------------------------------------------- scheduler


class Sched:
    def __init__(self, start=0, pre=None, max_steps=60000):
        self.pre = dict(pre or {})
        self.start = start
        self.step = 0
        self.threads = []
        self.sites = []          # (thread, op index, site) per step
        self.owners = []         # thread running at each step (for schedule enumeration)
        self.switches = []       # (step, from, to, where, from_thread_mid_op)
        self.max_steps = max_steps
        self.done = REAL_LOCK()
        self.done.acquire()
        self.error = None
        self.finished = False

    def runnable(self):
        out = []
        for w in self.threads:
            if w.finished:
                continue
            b = w.blocked_on
            if b is None or b.owner is None or (b.owner is w and b.reentrant):
                out.append(w)
        return out

    def _fail(self, err):
        self.error = err
        self.finished = True
        try:
            self.done.release()
        except RuntimeError:
            pass
        # park forever: the process is poisoned and will exit
        me = getattr(_tls, "worker", None)
        if me is not None:
            me.go.acquire()

    def yield_point(self, w, where, forced=False):
        self.step += 1
        self.owners.append(w.idx)
        self.sites.append((w.idx, w.op_index, where))
        if self.step > self.max_steps:
            self._fail(StepLimit(self.step))
        r = self.runnable()
        if not r:
            self._fail(Deadlock(self.describe_locks()))
        nxt = None
        want = self.pre.get(self.step)
        if want is not None:
            for x in r:
                if x.idx == want:
                    nxt = x
        if nxt is None:
            nxt = w if (w in r and not forced) else r[0]
        if nxt is not w:
            self.switches.append((self.step, w.idx, nxt.idx, where, w.in_op))
            nxt.go.release()
            w.go.acquire()

    def thread_finished(self, w):
        w.finished = True
        r = self.runnable()
        if r:
            r[0].go.release()
        elif any(not x.finished for x in self.threads):
            self.error = Deadlock(self.describe_locks())
            self.finished = True
            self.done.release()
        else:
            self.finished = True
            self.done.release()

    def describe_locks(self):
        out = []
        for x in self.threads:
            if not x.finished:
                b = x.blocked_on
                out.append({"thread": x.idx, "op": x.cur_op,
                            "waits_for": (b.label or b.name) if b else None,
                            "held_by": (b.owner.idx if isinstance(getattr(b, "owner", None), Worker) else repr(getattr(b, "owner", None))) if b else None,
                            "holds": [l.label or l.name for l in ALL_LOCKS if l.owner is x]})
        return out


class Worker:
    def __init__(self, sched, idx, body):
        self.sched, self.idx, self.body = sched, idx, body
        self.go = REAL_LOCK()
        self.go.acquire()
        self.finished = False
        self.blocked_on = None
        self.in_op = False
        self.op_index = -1
        self.cur_op = None
        self.history = []
        self.leaks = []
        self.crash = None
        self.thread = threading.Thread(target=self.run, daemon=True)

    def tracer(self, frame, event, arg):
        code = frame.f_code
        fn = code.co_filename
        if fn.startswith(LIB):
            # validation / conversion of the *argument* and the type memo touch no collection state
            if fn.endswith(_QUIET_FILES) or code.co_name in _QUIET_FUNCS:
                return None
            return self.local
        return None

    def local(self, frame, event, arg):
        if event == "line":
            self.sched.yield_point(self, (os.path.basename(frame.f_code.co_filename), frame.f_lineno))
        return self.local

    def run(self):
        _tls.worker = self
        self.go.acquire()
        try:
            sys.settrace(self.tracer)
            try:
                self.body(self)
            finally:
                sys.settrace(None)
        except BaseException as e:  # noqa: BLE001
            import traceback
            self.crash = f"{type(e).__name__}: {e}\n{traceback.format_exc()[-1500:]}"
        self.sched.thread_finished(self)


def run_threads(bodies, start=0, pre=None, max_steps=60000):
    s = Sched(start, pre, max_steps)
    CoopRLock.sched = s
    s.threads = [Worker(s, i, b) for i, b in enumerate(bodies)]
    for w in s.threads:
        w.thread.start()
    first = s.threads[start % len(s.threads)]
    first.go.release()
    s.done.acquire()
    CoopRLock.sched = None
    return s


# --------------------------------------------------------------------------- fault injection


class FaultPlan:
    """Raise OSError at the k-th file-system call made from library code by the armed thread."""

    def __init__(self):
        self.armed = None   # (thread ident, k, errno)
        self.count = 0
        self.fired = False
        self.calls = []

    def arm(self, k, err):
        self.armed = (threading.get_ident(), k, err)
        self.count = 0
        self.fired = False
        self.calls = []

    def disarm(self):
        self.armed = None

    def hit(self, what):
        a = self.armed
        if a is None or a[0] != threading.get_ident():
            return
        f = sys._getframe(2)
        if not f.f_code.co_filename.startswith(LIB):
            return
        self.count += 1
        self.calls.append(what)
        if a[1] is not None and self.count == a[1]:
            self.fired = True
            raise OSError(a[2], os.strerror(a[2]) + " (injected)")


FAULTS = FaultPlan()
_orig = {}


class _FileProxy:
    def __init__(self, f):
        self._f = f

    def read(self, *a):
        FAULTS.hit("read")
        return self._f.read(*a)

    def write(self, b):
        FAULTS.hit("write")
        return self._f.write(b)

    def close(self):
        return self._f.close()

    def __enter__(self):
        self._f.__enter__()
        return self

    def __exit__(self, *a):
        FAULTS.hit("close")
        return self._f.__exit__(*a)

    def __getattr__(self, n):
        return getattr(self._f, n)

    def __iter__(self):
        return iter(self._f)


def install_faults():
    if _orig:
        return
    _orig["open"] = builtins.open
    _orig["replace"] = os.replace
    _orig["stat"] = os.stat

    def open_(*a, **kw):
        FAULTS.hit("open")
        f = _orig["open"](*a, **kw)
        if FAULTS.armed is not None and FAULTS.armed[0] == threading.get_ident() \
                and sys._getframe(1).f_code.co_filename.startswith(LIB):
            return _FileProxy(f)
        return f

    def replace_(*a, **kw):
        FAULTS.hit("replace")
        return _orig["replace"](*a, **kw)

    def stat_(*a, **kw):
        FAULTS.hit("stat")
        return _orig["stat"](*a, **kw)

    builtins.open = open_
    io.open = open_
    os.replace = replace_
    os.stat = stat_


# --------------------------------------------------------------------------- programs


def build(program, directory):
    """Create files, objects and handles of a program (main thread, unscheduled)."""
    ci = CLASSES[program["class"]]
    reset_class_state()
    fresh_locks()
    files = []
    for i, d in enumerate(program["docs"]):
        r = JsonRes(os.path.join(directory, f"f{i}.json"))
        r.remove()
        if d != "$ABSENT":
            r.write(dec(d))
        files.append(r)
    handles = []
    for h in program["handles"]:
        if "file" in h:
            obj = files[h["file"]].make(CLASSES[h["cls"]] if h.get("cls") else (ci if not h.get("peer") else ci.peer))
            handles.append(obj)
        else:
            cur = handles[h["of"]]
            for k in dec(h["path"]):
                cur = cur[k]
            handles.append(cur)
    return ci, files, handles


def execute(program, schedule, directory):
    """Run one schedule of a program. Returns a picklable result dict."""
    ci, files, handles = build(program, directory)
    kinds = program["kinds"]
    ctx = None
    setup_error = None
    buf = program.get("buffered")
    root_cls = ci.cls
    if buf is not None:
        cap = buf.get("cap")
        ctx = root_cls.buffer_backend(cap) if cap is not None else root_cls.buffer_backend()
        ctx.__enter__()
    for pre_op in program.get("pre_ops", []):
        ops.real_apply(handles[pre_op["h"]], kinds[pre_op["h"]], pre_op["m"], dec(pre_op.get("a", [])), {})
    if program.get("children_after_enter"):
        # nested handles are taken INSIDE the buffered context (handles from before it are the
        # subject of known finding K1, not of the concurrency properties)
        for i, h in enumerate(program["handles"]):
            if "of" in h:
                cur = handles[h["of"]]
                for k in dec(h["path"]):
                    cur = cur[k]
                handles[i] = cur

    ctx_state = {"main_exited": False, "own": []}

    def make_body(tops):
        def body(w):
            for n, op in enumerate(tops):
                w.cur_op = (op["h"], op["m"])
                w.op_index = n
                f = op.get("fault")
                if f and f.get("content") is not None:
                    fr = files[f.get("file", 0)]
                    with _orig.get("open", open)(fr.path, "wb") as fh:
                        fh.write(f["content"].encode())
                if f and "io_k" in f:
                    FAULTS.arm(f["io_k"], f.get("errno", _errno.EIO))
                elif program.get("count_io"):
                    FAULTS.arm(None, 0)
                inv = w.sched.step
                w.in_op = True
                if op["m"] == "set_filename":
                    try:
                        handles[op["h"]].filename = files[op["a"][0]].path
                        out = ops.Outcome(True, None)
                    except Exception as e:  # noqa: BLE001
                        out = ops.Outcome(False, family=ops.exc_family(e),
                                          detail=f"{type(e).__name__}: {str(e)[:120]}")
                elif op["m"] in ("ctx_exit_main", "ctx_enter_obj", "ctx_enter_cls", "ctx_exit_own"):
                    # buffered contexts entered / left by a THREAD while others are operating
                    try:
                        if op["m"] == "ctx_exit_main":
                            if ctx is not None and not ctx_state["main_exited"]:
                                ctx_state["main_exited"] = True
                                ctx.__exit__(None, None, None)
                        elif op["m"] == "ctx_exit_own":
                            mine = [c for c in ctx_state["own"] if c[0] is w]
                            if mine:
                                ctx_state["own"].remove(mine[-1])
                                mine[-1][1].__exit__(None, None, None)
                        else:
                            c = handles[op["h"]].buffered if op["m"] == "ctx_enter_obj" else \
                                type(handles[op["h"]]).buffer_backend()
                            c.__enter__()
                            ctx_state["own"].append((w, c))
                        out = ops.Outcome(True, None)
                    except Exception as e:  # noqa: BLE001
                        out = ops.Outcome(False, family=ops.exc_family(e),
                                          detail=f"{type(e).__name__}: {str(e)[:120]}")
                elif op["m"] == "construct_drop":
                    # a temporary object on the file that is finalised right away (cyclic GC)
                    try:
                        import gc
                        tmp_obj = files[op["a"][0]].make(ci)
                        tmp_obj()
                        del tmp_obj
                        gc.collect()
                        out = ops.Outcome(True, None)
                    except Exception as e:  # noqa: BLE001
                        out = ops.Outcome(False, family=ops.exc_family(e),
                                          detail=f"{type(e).__name__}: {str(e)[:120]}")
                elif op["m"] == "construct":
                    try:
                        handles.append(files[op["a"][0]].make(ci))
                        out = ops.Outcome(True, None)
                    except Exception as e:  # noqa: BLE001
                        out = ops.Outcome(False, family=ops.exc_family(e),
                                          detail=f"{type(e).__name__}: {str(e)[:120]}")
                else:
                    out = ops.real_apply(handles[op["h"]], kinds[op["h"]], op["m"], dec(op.get("a", [])),
                                         dec(op.get("kw", {})), resolve_real=lambda i: handles[i])
                w.in_op = False
                io_calls = list(FAULTS.calls) if FAULTS.armed else None
                fired = FAULTS.fired
                FAULTS.disarm()
                w.history.append({"op": n, "inv": inv, "res": w.sched.step, "out": out.brief(),
                                  "io": io_calls, "fired": fired})
                held = [l.label or l.name for l in ALL_LOCKS if l.owner is w and l.count > 0]
                if held:
                    w.leaks.append({"op": n, "m": op["m"], "locks": held})
                    # release so that the run can continue and later effects are visible too
        return body

    s = run_threads([make_body(t) for t in program["threads"]], schedule.get("start", 0),
                    {int(k): v for k, v in schedule.get("pre", {}).items()})
    res = {
        "steps": s.step,
        "owners": bytes(min(o, 255) for o in s.owners),
        "sites": s.sites if schedule.get("record_sites") else None,
        "switches": [(a, b, c, d, e) for (a, b, c, d, e) in s.switches],
        "history": [w.history for w in s.threads],
        "leaks": [w.leaks for w in s.threads],
        "crashes": [w.crash for w in s.threads],
        "deadlock": s.error.args[0] if isinstance(s.error, Deadlock) else None,
        "steplimit": isinstance(s.error, StepLimit),
        "poisoned": s.error is not None or any(w.leaks for w in s.threads),
        "exit_error": None,
        "final": None,
        "buffer_size": None,
    }
    if res["poisoned"]:
        return res
    for _w, c in reversed(ctx_state["own"]):
        try:
            c.__exit__(None, None, None)
        except Exception as e:  # noqa: BLE001
            res["exit_error"] = f"{type(e).__name__}: {str(e)[:200]}"
    if ctx is not None:
        if not ctx_state["main_exited"]:
            try:
                ctx.__exit__(None, None, None)
            except Exception as e:  # noqa: BLE001
                res["exit_error"] = f"{type(e).__name__}: {str(e)[:200]}"
        res["buffer_size"] = root_cls.get_current_buffer_size()
    leftover = [l.label or l.name for l in ALL_LOCKS if l.owner is not None]
    if leftover:
        res["leaks"][0].append({"op": "after-all", "locks": leftover})
        res["poisoned"] = True
    final = []
    for r in files:
        try:
            d = r.read()
            final.append("$ABSENT" if d is ABSENT else enc(d))
        except Exception as e:  # noqa: BLE001
            final.append({"$unreadable": f"{type(e).__name__}: {e}"[:120]})
    res["final"] = final
    for post in program.get("post_reads", []):
        o = ops.real_apply(handles[post], kinds[post], "call", [], {})
        res.setdefault("post", []).append(o.brief())
    return res


# --------------------------------------------------------------------------- isolation


def _send(fd, obj):
    data = pickle.dumps(obj)
    os.write(fd, struct.pack("<I", len(data)))
    off = 0
    while off < len(data):
        off += os.write(fd, data[off:off + 65536])


def _recv(fd, timeout):
    def rd(n):
        buf = b""
        while len(buf) < n:
            r, _, _ = select.select([fd], [], [], timeout)
            if not r:
                raise TimeoutError
            chunk = os.read(fd, n - len(buf))
            if not chunk:
                return None
            buf += chunk
        return buf
    h = rd(4)
    if h is None:
        return None
    body = rd(struct.unpack("<I", h)[0])
    return pickle.loads(body)


def explore(program, schedules, timeout=60):
    """Execute all schedules in forked children (a poisoned child is replaced). Yields results."""
    if not _installed[0]:
        install()
        install_faults()
    results = [None] * len(schedules)
    i = 0
    while i < len(schedules):
        r, w = os.pipe()
        d = env.scratch("vfs")      # owned (and removed) by the parent, whatever happens to the child
        pid = os.fork()
        if pid == 0:
            os.close(r)
            try:
                for j in range(i, len(schedules)):
                    try:
                        res = execute(program, schedules[j], d)
                    except HarnessError as e:
                        res = {"harness_error": str(e)}
                    except BaseException as e:  # noqa: BLE001
                        import traceback
                        res = {"harness_error": f"{type(e).__name__}: {e}\n{traceback.format_exc()[-1200:]}"}
                    _send(w, (j, res))
                    if res.get("poisoned") or res.get("harness_error"):
                        break
            finally:
                os._exit(0)
        os.close(w)
        last = i - 1
        try:
            while True:
                try:
                    msg = _recv(r, timeout)
                except TimeoutError:
                    os.kill(pid, 9)
                    os.waitpid(pid, 0)
                    raise HarnessError(f"schedule {last + 1} of program did not finish within {timeout}s "
                                       "(a lock the harness cannot schedule?)")
                if msg is None:
                    break
                j, res = msg
                if res.get("harness_error"):
                    os.kill(pid, 9)
                    raise HarnessError(res["harness_error"])
                results[j] = res
                last = j
        finally:
            os.close(r)
        try:
            os.waitpid(pid, 0)
        except ChildProcessError:
            pass
        shutil.rmtree(d, ignore_errors=True)
        if last < i:
            raise HarnessError("child died without producing a result")
        i = last + 1
    return results
