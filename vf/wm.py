"""Glue between Hypothesis draws and the World interpreter (generation, replay, minimising)."""
import copy
import os
import shutil
import itertools

from hypothesis import strategies as st

from . import env
from .classes import ABSENT, CLASSES, HarnessError, reset_class_state
from .plain import dec, enc
from .runner import CaseFailure, minimize
from .world import Mismatch, World

_counter = itertools.count()
_BASE = None


def case_dir():
    global _BASE
    if _BASE is None or _BASE[1] != os.getpid() or not os.path.isdir(_BASE[0]):
        _BASE = (env.scratch("vfw"), os.getpid())
    d = os.path.join(_BASE[0], f"c{next(_counter)}")
    os.mkdir(d)
    return d


EXTRA_ENGINES = {}


def _engine(name):
    if name in EXTRA_ENGINES:
        return EXTRA_ENGINES[name]
    if name == "bufworld":
        from .bufworld import BufWorld
        return BufWorld
    if name == "acctworld":
        from .acctworld import AcctWorld
        return AcctWorld
    return World


def _wkw(cfg):
    return {k: v for k, v in cfg.items()
            if k in ("check_outcome", "check_resource", "check_frozen", "excl", "ordered", "exact")}


def world_from_case(case, directory):
    cfg = case["cfg"]
    ci = CLASSES[case["class"]]
    docs = [ABSENT if d == "$ABSENT" else dec(d) for d in cfg["docs"]]
    return _engine(case.get("engine"))(ci, directory, initial_docs=docs, **_wkw(cfg))


def make_case(prop, ci, docs, steps, engine="world", **cfg):
    return {
        "property": prop,
        "engine": engine,
        "class": ci.name,
        "cfg": {"docs": ["$ABSENT" if d is ABSENT else enc(d) for d in docs], **cfg},
        "steps": steps,
    }


def replay_world(case, final=True, post=None):
    """Re-execute a stored case without Hypothesis. Returns a failure description or None."""
    d = case_dir()
    reset_class_state()
    toff = case.get("cfg", {}).get("threading_off") and CLASSES[case["class"]].backend == "json"
    if toff:
        CLASSES[case["class"]].cls.disable_multithreading()
    try:
        w = world_from_case(case, d)
        try:
            for s in case["steps"]:
                w.step(copy.deepcopy(s))
            if final:
                w.final_check()
            if post:
                post(w)
        except Mismatch as mm:
            return mm.describe()
        return None
    finally:
        if toff:
            CLASSES[case["class"]].cls.enable_multithreading()
        reset_class_state()
        shutil.rmtree(d, ignore_errors=True)


def run_generated(prop, ci, docs, gen_step, draw, max_steps, final=True, post=None,
                  engine="world", **cfg):
    """Generate and execute one case step by step. Returns the finished world."""
    d = case_dir()
    reset_class_state()
    toff = cfg.get("threading_off") and ci.backend == "json"
    if toff:
        ci.cls.disable_multithreading()
    try:
        w = _engine(engine)(ci, d, initial_docs=copy.deepcopy(docs), **_wkw(cfg))
        n = draw(st.integers(1, max_steps))
        try:
            for _ in range(n):
                s = gen_step(draw, w)
                if s is None:
                    continue
                w.step(s)
            if final:
                w.final_check()
            if post:
                post(w)
        except Mismatch as mm:
            raise CaseFailure(make_case(prop, ci, docs, list(w.log), engine=engine, **cfg),
                              mm.describe())
        return w
    finally:
        if toff:
            ci.cls.enable_multithreading()
        reset_class_state()
        shutil.rmtree(d, ignore_errors=True)


def minimize_world(fail, final=True, post=None, budget=300):
    fails = lambda c: replay_world(c, final=final, post=post)  # noqa: E731
    case, desc = minimize(fail.case, fails, budget=budget)
    if desc is not None:
        from .runner import shrink_values, world_slots
        case = shrink_values(case, fails, desc.get("what"), world_slots, budget=budget)
        case, desc = minimize(case, fails, budget=budget)
    return {"case": case, "desc": desc if desc is not None else dict(fail.desc, unminimised=True)}
