"""Interpreter of concrete step lists against the library and the plain model.

A *world* = resources, root collection objects bound to them, retained child
handles, one plain model document per resource.  Steps are plain data (replay
files are lists of them); the interpreter is the only thing that touches the
library, for generation, minimisation and replay alike.
"""
import copy
from collections import Counter

from . import ops
from .classes import ABSENT, HarnessError, new_resource
from .plain import ordered_eq, type_exact_eq, Ref, Slice, dec, enc, is_plain, kind_of, plain


class Mismatch(Exception):
    """The library disagreed with the oracle."""

    def __init__(self, what, **detail):
        super().__init__(what)
        self.what = what
        self.detail = detail

    def describe(self):
        return {"what": self.what, **{k: enc(v) if not isinstance(v, (str, int)) and k != "step" else v
                                      for k, v in self.detail.items()}}


class Handle:
    __slots__ = ("obj", "res", "path", "real", "kind", "attached", "born", "unlinked")

    def __init__(self, obj, res, path, real, kind, born=0):
        self.obj, self.res, self.path, self.real, self.kind = obj, res, tuple(path), real, kind
        self.attached = True
        self.born = born
        self.unlinked = False    # its position was reassigned / removed through its own object


def get_path(doc, path):
    """Value at ``path`` of a plain document, or raise LookupError/TypeError."""
    cur = doc
    for k in path:
        if isinstance(k, str):
            if not isinstance(cur, dict):
                raise LookupError(k)
            cur = cur[k]
        else:
            if not isinstance(cur, list):
                raise LookupError(k)
            if not (0 <= k < len(cur)):
                raise LookupError(k)
            cur = cur[k]
    return cur


def container_paths(doc, prefix=(), out=None, max_depth=8):
    """All paths of containers inside a plain document (root included)."""
    if out is None:
        out = []
    if isinstance(doc, dict):
        out.append(prefix)
        if len(prefix) < max_depth:
            for k, v in doc.items():
                container_paths(v, prefix + (k,), out, max_depth)
    elif isinstance(doc, list):
        out.append(prefix)
        if len(prefix) < max_depth:
            for i, v in enumerate(doc):
                container_paths(v, prefix + (i,), out, max_depth)
    return out


ALL = object()


def touched_children(kind, m, a, kw, n_before, model_out, real_out):
    """Children of the target that the op reassigns / removes / index-shifts (C02 wording).

    Returns ALL or a set of keys / non-negative indices.
    """
    if kind == "dict":
        if m in ("setitem", "delitem", "pop"):
            return {a[0]} if a and isinstance(a[0], str) else set()
        if m == "popitem":
            out = set()
            for o in (model_out, real_out):
                if o is not None and o.ok and isinstance(o.value, list) and o.value:
                    if isinstance(o.value[0], str):
                        out.add(o.value[0])
            return out
        if m in ("clear", "reset"):
            return ALL
        if m == "update":
            keys = set()
            if a and a[0] is not None:
                try:
                    keys |= set(dict(a[0]).keys())
                except Exception:  # noqa: BLE001
                    return ALL
            keys |= set((kw or {}).keys())
            return keys
        return set()
    if m == "setitem" and a and isinstance(a[0], int) and not isinstance(a[0], bool):
        i = a[0]
        if i < 0:
            i += n_before
        return {i}
    if m in ("append", "extend", "iadd"):
        return set()
    return ALL


def unlinked_children(kind, m, a, n_before, model_out):
    """Children whose node the op certainly REPLACES or REMOVES (the old child object is no longer
    part of the tree: like the old value of ``d[k]`` after ``d[k] = {...}`` on a built-in dict).
    In-place merges (update/reset) and index shifts are not included."""
    if kind == "dict":
        if m in ("setitem", "delitem", "pop"):
            return {a[0]} if a and isinstance(a[0], str) else set()
        if m == "popitem" and model_out is not None and model_out.ok and model_out.value:
            return {model_out.value[0]}
        if m == "clear":
            return ALL
        return set()
    if m == "clear":
        return ALL
    if m in ("setitem", "delitem", "pop"):
        if m == "pop" and not a:
            return {n_before - 1} if n_before else set()
        if a and isinstance(a[0], int) and not isinstance(a[0], bool):
            i = a[0] + n_before if a[0] < 0 else a[0]
            return {i} if 0 <= i < n_before else set()
    return set()


class World:
    def __init__(self, ci, directory, initial=ABSENT, nres=1, check_outcome=True,
                 check_resource=True, initial_docs=None, excl=(), ordered=False, exact=False):
        self.ci = ci
        self.ordered = ordered     # also compare dict key order (C03 "ordered" part only)
        self.exact = exact         # reads must also have the backend's JSON leaf types (C02)
        self.excl = set(excl)      # active known-finding exclusions (by construction)
        self.excluded = 0
        self.poisoned = set()      # resources currently holding the other root kind
        self.dir = directory
        self.check_outcome = check_outcome
        self.check_resource = check_resource
        self.res = []
        self.docs = []
        self.may_be_absent = []
        self.root_ci = []
        docs = initial_docs if initial_docs is not None else [initial] * nres
        for i, d in enumerate(docs):
            r = new_resource(ci, directory, f"r{i}.json")
            self.res.append(r)
            rci = ci
            if d is not ABSENT:
                if kind_of(d) != ci.kind:
                    rci = ci.peer
                r.write(copy.deepcopy(d))
                self.docs.append(copy.deepcopy(d))
                self.may_be_absent.append(False)
            else:
                self.docs.append({} if ci.kind == "dict" else [])
                self.may_be_absent.append(True)
            self.root_ci.append(rci)
        self.handles = []
        self.nobj = 0
        self.log = []
        self.events = Counter()
        self.feat = set()
        self.nstep = 0

    # ------------------------------------------------------------------ helpers
    def model_at(self, h):
        return get_path(self.docs[h.res], h.path)

    def usable(self, i):
        return 0 <= i < len(self.handles) and self.handles[i].attached

    def attached_handles(self):
        return [i for i, h in enumerate(self.handles) if h.attached]

    def revalidate(self):
        for h in self.handles:
            if not h.attached:
                continue
            try:
                v = get_path(self.docs[h.res], h.path)
            except LookupError:
                h.attached = False
                continue
            if kind_of(v) != h.kind:
                h.attached = False

    def _resolve_real(self, i):
        if not self.usable(i):
            raise HarnessError("reference to unusable handle")
        return self.handles[i].real

    def _resolve_model(self, i):
        return self.model_at(self.handles[i])

    def _refs_ok(self, a, kw):
        for x in list(a) + list((kw or {}).values()):
            if isinstance(x, Ref) and not self.usable(x.h):
                return False
        return True

    # ------------------------------------------------------------------ steps
    def run(self, steps):
        for s in steps:
            self.step(s)

    def step(self, s):
        """Execute one (encoded) step. Returns False if it was not applicable and skipped."""
        self.nstep += 1
        t = s["t"]
        self.log.append(s)
        done = getattr(self, "_s_" + t)(s)
        if done is False:
            self.log.pop()
        return done

    def _slot(self, s):
        """Handle id a creating step will get (stable under deletion of other steps)."""
        hid = s.get("id", len(self.handles))
        if hid < len(self.handles):
            return None
        while len(self.handles) < hid:
            dead = Handle(-1, 0, (), None, "dict")
            dead.attached = False
            self.handles.append(dead)
        return hid

    def next_id(self):
        return len(self.handles)

    def _s_new(self, s):
        r = s.get("r", 0)
        if not (0 <= r < len(self.res)):
            return False
        hid = self._slot(s)
        if hid is None:
            return False
        obj = self.res[r].make(self.root_ci[r], **dec(s.get("kw", {})))
        self.handles.append(Handle(hid, r, (), obj, self.root_ci[r].kind, self.nstep))
        self.nobj += 1
        self.events["new"] += 1

    def _s_newres(self, s):
        """A further resource, possibly of another class (operands of comparisons, C16)."""
        from .classes import CLASSES
        ci = CLASSES[s["cls"]]
        doc = dec(s["doc"])
        if kind_of(doc) != ci.kind:
            return False
        r = new_resource(ci, self.dir, f"x{len(self.res)}.json")
        r.write(copy.deepcopy(doc))
        self.res.append(r)
        self.docs.append(copy.deepcopy(doc))
        self.may_be_absent.append(False)
        self.root_ci.append(ci)

    def _s_rewrite(self, s):
        r = s.get("r", 0)
        if not (0 <= r < len(self.res)):
            return False
        doc = dec(s["doc"])
        if kind_of(doc) != self.root_ci[r].kind:
            if not s.get("poison") or kind_of(doc) not in ("dict", "list"):
                return False
            # The outside writer stores valid JSON of the OTHER root kind: every operation must now
            # raise (documented ValueError) until the resource is repaired; nested handles are
            # detached by the wording of C02 (their positions no longer exist).
            self.res[r].write(copy.deepcopy(doc))
            self.poisoned.add(r)
            for h in self.handles:
                if h.res == r and h.path:
                    h.attached = False
            self.events["poison"] += 1
            return None
        self.poisoned.discard(r)
        self.res[r].write(copy.deepcopy(doc))
        self.docs[r] = copy.deepcopy(doc)
        self.may_be_absent[r] = False
        self.revalidate()
        self.events["rewrite"] += 1

    def _s_take(self, s):
        i, k = s["h"], dec(s["k"])
        via = s.get("via", "getitem")
        if not self.usable(i):
            return False
        if self.handles[i].res in self.poisoned:
            return False
        h = self.handles[i]
        cont = self.model_at(h)
        if h.kind == "list":
            if not isinstance(k, int) or isinstance(k, bool):
                return False
            if k < 0:
                k += len(cont)
            if not (0 <= k < len(cont)):
                return False
        else:
            if not isinstance(k, str) or k not in cont:
                return False
        v = cont[k]
        if kind_of(v) not in ("dict", "list"):
            return False
        if self._slot(s) is None:
            return False
        try:
            if via == "get" and h.kind == "dict":
                child = h.real.get(k)
            elif via == "setdefault" and h.kind == "dict":
                child = h.real.setdefault(k)
            elif via == "iter" and h.kind == "list":
                child = list(iter(h.real))[k]
            else:
                child = h.real[k]
        except Exception as e:  # noqa: BLE001 - the model says this read succeeds
            raise Mismatch("read_raised", step=s, error=f"{type(e).__name__}: {str(e)[:160]}",
                           expected=copy.deepcopy(v))
        from synced_collections import SyncedCollection
        if not isinstance(child, SyncedCollection):
            raise Mismatch("take_not_synced", step=s, got=type(child).__name__,
                           expected=copy.deepcopy(v))
        got = child._to_base()
        if got != v:
            raise Mismatch("read", step=s, got=got, expected=copy.deepcopy(v))
        self.handles.append(Handle(h.obj, h.res, h.path + (k,), child, kind_of(v), self.nstep))
        self.events["take"] += 1

    def _s_op(self, s):
        i, m = s["h"], s["m"]
        a, kw = dec(s.get("a", [])), dec(s.get("kw", {}))
        if not self.usable(i) or not self._refs_ok(a, kw):
            return False
        h = self.handles[i]
        if m not in ops.MUTATORS[h.kind] and m not in ops.READS[h.kind] and m not in ops.EXTRA_READ:
            return False
        if h.res in self.poisoned:
            # unmergeable content: the operation must fail, and must not damage anything
            real = ops.real_apply(h.real, h.kind, m, a, kw, self._resolve_real)
            self.events["op_while_poisoned"] += 1
            if real.ok and m not in ("clear", "reset"):
                raise Mismatch("operation_succeeded_on_unmergeable_resource", step=s, real=real.brief())
            if real.ok:
                # root clear()/reset() are destructive by design: they repair the resource
                self.poisoned.discard(h.res)
                cont = self.model_at(h)
                ops.model_apply(cont, h.kind, m, a, kw, self._resolve_model)
            return True
        if not ops.arity_ok(h.kind, m, a):
            return False
        cont = self.model_at(h)
        n_before = len(cont)
        mut = ops.is_mutator(h.kind, m)
        if mut and (ops._has_inv(a) or ops._has_inv(list((kw or {}).values()))):
            # forbidden data as the only payload: must be rejected and change nothing
            real = ops.real_apply(h.real, h.kind, m, a, kw, self._resolve_real)
            self.events[("op_rejected", h.kind, m)] += 1
            if real.ok or real.family not in ("TypeError", "ValueError"):
                raise Mismatch("forbidden_data_not_rejected", step=s, real=real.brief())
            if self.check_resource:
                self.check_res(h.res, step=s)
            return True
        before_doc = copy.deepcopy(self.docs[h.res]) if mut else None
        real = ops.real_apply(h.real, h.kind, m, a, kw, self._resolve_real)
        model = ops.model_apply(cont, h.kind, m, a, kw, self._resolve_model,
                                real_out=None if self.ordered else real)
        self.last = (real, model)
        self.events[("op", h.kind, m)] += 1
        if not model.ok:
            self.events["model_raise"] += 1
            self.events["raise:" + str(model.family)] += 1
        if mut:
            if model.ok:
                if before_doc != self.docs[h.res]:
                    self.may_be_absent[h.res] = False
                sel = touched_children(h.kind, m, a, kw, n_before, model, real)
                P = h.path
                shared = "shared_tree_detach" in self.excl and self.ci.buffered == "memory"
                unl = unlinked_children(h.kind, m, a, n_before, model)
                for g in self.handles:
                    same = g.obj == h.obj or (shared and g.res == h.res)
                    if g.attached and same and len(g.path) > len(P) and g.path[:len(P)] == P:
                        if sel is ALL or g.path[len(P)] in sel:
                            g.attached = False
                            if g.obj == h.obj and (unl is ALL or g.path[len(P)] in unl):
                                g.unlinked = True
                            if g.obj != h.obj:
                                self.excluded += 1
            elif before_doc != self.docs[h.res]:
                raise HarnessError(f"model mutated by a raising op {m} {a!r}")
            self.revalidate()
        if self.check_outcome and not ops.same_outcome(h.kind, m, real, model, ordered=self.ordered, exact=self.exact):
            raise Mismatch("outcome", step=s, real=real.brief(), model=model.brief(),
                           depth=len(h.path))
        if mut and self.check_resource:
            self.check_res(h.res, step=s)
        return True

    def _s_stale_op(self, s):
        """A mutation through a child handle whose position was reassigned or removed through its own
        object. On a built-in structure the old child is no longer part of the document, so
        whatever the call does (or raises), the data of the collection must not change."""
        i = s["h"]
        if not (0 <= i < len(self.handles)):
            return False
        h = self.handles[i]
        if not h.unlinked or h.real is None or h.res in self.poisoned:
            return False
        ops.real_apply(h.real, h.kind, s["m"], dec(s.get("a", [])), {}, self._resolve_real)
        self.events["mutation_through_unlinked_handle"] += 1
        self.check_res(h.res, step=s)
        for g in self.handles:
            if g.attached and not g.path and g.res == h.res and g.real is not None:
                got = plain(g.real())
                if got != self.docs[g.res]:
                    raise Mismatch("read_after_stale_handle_mutation", step=s, got=got,
                                   expected=copy.deepcopy(self.docs[g.res]))

    # ------------------------------------------------------------------ oracles
    def check_res(self, r, step=None):
        if r in self.poisoned:
            return
        try:
            got = self.res[r].read()
        except ValueError as e:
            raw = self.res[r].raw()
            raise Mismatch("resource_unparsable", step=step, error=str(e)[:120],
                           raw=repr(raw[:120]) if raw is not None else None)
        if got is ABSENT:
            if not self.may_be_absent[r]:
                raise Mismatch("resource_absent", step=step, expected=self.docs[r])
            return
        if not is_plain(got):
            raise Mismatch("resource_not_plain", step=step, got=repr(got)[:200])
        if got != self.docs[r]:
            raise Mismatch("resource", step=step, got=got, expected=copy.deepcopy(self.docs[r]))

    def final_check(self):
        for r in range(len(self.res)):
            self.check_res(r, step="final")
        for i, h in enumerate(self.handles):
            if not h.attached or h.res in self.poisoned:
                continue
            try:
                got = plain(h.real())
            except Exception as e:  # noqa: BLE001
                raise Mismatch("final_read_raised", handle=i, path=list(h.path),
                               error=f"{type(e).__name__}: {str(e)[:160]}")
            exp = self.model_at(h)
            if got != exp or (self.ordered and not ordered_eq(got, exp)) or \
                    (self.exact and not type_exact_eq(got, exp)):
                raise Mismatch("final_read", handle=i, path=list(h.path), got=got,
                               expected=copy.deepcopy(exp))
